#!/bin/bash
# Run every registered check at one tier and seed; print one summary line per check.
# usage: lib/run_all.sh [quick|thorough] [seed]
tier=${1:-quick}
seed=${2:-1}
cd /verif
rc=0
for id in $(python3 -c "import json;print(' '.join(c['property_id'] if 'property_id' in c else c['id'] for c in json.load(open('MANIFEST.json'))['checks']))"); do
  out=$(VERIF_SEED=$seed ./check $id $tier 2>&1)
  code=$?
  echo "$out" | grep -E "^(VIOLATION|INCONCLUSIVE)|  signature" 
  echo "$out" | tail -1 | sed "s/^/[exit $code] /"
  [ $code -ne 0 ] && rc=1
done
exit $rc
