#!/usr/bin/env python3
"""Apply a seeded change to /repo, run checks against it, undo the change.

usage: lib/try_seed.py <seed-dir> [--checks C01,C13] [--tier quick|thorough] [--seed N]

<seed-dir> holds patch.diff (+ meta.json). The change is applied with `git -C /repo apply`,
the checks run (default: the check of the property named in meta.json), and the tree is restored with
`git -C /repo checkout -- .` whatever happens. The outcome is written to <seed-dir>/result.json and
printed. Nothing is ever committed to /repo.
"""
import json, os, subprocess, sys, time, re

def sh(cmd, **kw):
    return subprocess.run(cmd, shell=isinstance(cmd, str), capture_output=True, text=True, **kw)

def main():
    args = sys.argv[1:]
    d = os.path.abspath(args[0])
    checks = None
    tier = 'quick'
    seed = '1'
    i = 1
    while i < len(args):
        if args[i] == '--checks':
            checks = args[i + 1].split(','); i += 2
        elif args[i] == '--tier':
            tier = args[i + 1]; i += 2
        elif args[i] == '--seed':
            seed = args[i + 1]; i += 2
        else:
            i += 1
    meta = {}
    if os.path.exists(os.path.join(d, 'meta.json')):
        meta = json.load(open(os.path.join(d, 'meta.json')))
    if checks is None:
        checks = [meta.get('property') or os.path.basename(os.path.dirname(d))]
    st = sh('git -C /repo status --porcelain --untracked-files=no').stdout.strip()
    if st:
        print('refusing: /repo has uncommitted changes:\n' + st); sys.exit(2)
    patch = os.path.join(d, 'patch.diff')
    a = sh(['git', '-C', '/repo', 'apply', '--whitespace=nowarn', patch])
    if a.returncode != 0:
        print('patch does not apply: ' + a.stderr); sys.exit(2)
    results = []
    try:
        for c in checks:
            t0 = time.time()
            env = dict(os.environ, VERIF_SEED=seed)
            # evidence written while a seeded change is applied must not replace the committed evidence
            ev = f'/verif/evidence/{c}.json'
            saved = open(ev).read() if os.path.exists(ev) else None
            r = sh(['/verif/check', c, tier], env=env)
            if saved is not None:
                open(ev, 'w').write(saved)
            out = r.stdout + r.stderr
            sigs = re.findall(r'^\s+signature: (.*)$', out, re.M)
            results.append({
                'check': c, 'tier': tier, 'seed': seed, 'exit': r.returncode,
                'caught': r.returncode == 1 and 'VIOLATION property=' in out,
                'signatures': sigs[:12], 'seconds': round(time.time() - t0, 1),
                'last_line': out.strip().split('\n')[-1] if out.strip() else '',
            })
    finally:
        sh('git -C /repo checkout -- .')
    res = {'seed_dir': d, 'title': meta.get('title'), 'results': results,
           'caught': any(x['caught'] for x in results)}
    prev = []
    rp = os.path.join(d, 'result.json')
    if os.path.exists(rp):
        try:
            prev = json.load(open(rp)).get('history', [])
        except Exception:
            prev = []
    res['history'] = prev + results
    res['caught_ever'] = any(x['caught'] for x in res['history'])
    json.dump(res, open(rp, 'w'), indent=1)
    for x in results:
        print(f"{os.path.relpath(d, '/verif')} {x['check']} {x['tier']} seed={x['seed']}: "
              f"{'CAUGHT' if x['caught'] else 'missed (exit %d)' % x['exit']} in {x['seconds']}s {x['signatures'][:3]}")

if __name__ == '__main__':
    main()
