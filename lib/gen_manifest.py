#!/usr/bin/env python3
"""Regenerate /verif/MANIFEST.json from lib/properties.py (run after editing it)."""
import json, os, sys
ROOT = os.path.dirname(os.path.dirname(os.path.abspath(__file__)))
sys.path.insert(0, os.path.join(ROOT, "lib"))
from properties import PROPS, NOT_APPLICABLE, HOOK_COMMITS

ids = [json.loads(l)["id"] for l in open(os.path.join(ROOT, "properties.jsonl"))]
checks = []
for pid in ids:
    if pid not in PROPS:
        continue
    c = PROPS[pid]
    checks.append({
        "property_id": pid,
        "quick_cmd": f"./check {pid} quick",
        "thorough_cmd": f"./check {pid} thorough",
        "evidence_file": f"/verif/evidence/{pid}.json",
        "replay_cmd_template": f"./check {pid} --replay {{path}}",
        "engine": "qv",
        "level_claimed": {"category": "exploration", "text": c["level_text"], "design_ref": c.get("design_ref", f"DESIGN.md §3 {pid}")},
        "level_note": c["level_note"],
        "technique": c["technique"],
    })
na = [{"property_id": pid, "reason": NOT_APPLICABLE[pid]} for pid in ids if pid not in PROPS]
for pid in ids:
    assert pid in PROPS or pid in NOT_APPLICABLE, pid
manifest = {
    "version": 1,
    "setup_cmd": "./check --setup",
    "hooks": {
        "guard": "cargo feature `verif-hooks` of qrlew (off by default)",
        "enable": "the harness crate /verif/harness depends on qrlew = { path = \"/repo\", features = [\"sqlite\", \"verif-hooks\"] }; every check runs `cargo build --offline --profile verif` there, which rebuilds qrlew from /repo's working tree",
        "baseline_off_cmd": "/verif/lib/run_stable_tests.sh   # the 403 stable baseline tests, default features (guard off); full suite: cd /repo && cargo test --workspace --no-fail-fast --offline",
        "source_commits": HOOK_COMMITS,
        "add_only": True,
    },
    "engines": [{
        "name": "qv",
        "path": "/verif/harness",
        "serves_properties": [c["property_id"] for c in checks],
        "kind_free_text": "Rust harness linking the real qrlew (path dependency on /repo) with hooks on: generators of hostile workloads, independent oracles, SQLite execution with a controlled random source; driven in 16 subprocess shards by /verif/check (python3), which matches violations against known_findings.json and writes evidence",
    }],
    "checks": checks,
    "not_applicable": na,
    "notes": "Runtime monitoring only. Every verdict is 'held on the executions observed'. Exit 3 = inconclusive (never mapped to held or violated). Known genuine defects: /verif/known_findings.json.",
}
with open(os.path.join(ROOT, "MANIFEST.json"), "w") as f:
    json.dump(manifest, f, indent=1)
print("MANIFEST.json:", len(checks), "checks,", len(na), "not applicable")
