#!/usr/bin/env python3
"""Run a check over several seeds and list the violation signatures that are not known findings (for review)."""
import json, subprocess, sys, glob, os
pid=sys.argv[1]; seeds=sys.argv[2:] or ['1','2','3']
import time
start=time.time()
seen={}
for s in seeds:
    env=dict(os.environ, VERIF_SEED=s)
    subprocess.run(['/verif/check',pid,'quick'],env=env,capture_output=True,text=True)
    for f in glob.glob(f'/verif/replay/{pid}-*.json'):
        if os.path.getmtime(f) < start:
            continue  # left over from an earlier run (e.g. a seeded-change trial)
        j=json.load(open(f))
        seen.setdefault(j['signature'], j)
known={k['signature'] for k in json.load(open('/verif/known_findings.json'))['findings'] if k.get('status','known')=='known'}
for sig,j in sorted(seen.items()):
    if sig in known: continue
    d=j['case'].get('data') if isinstance(j['case'],dict) else {}
    print(json.dumps({"signature":sig,"detail":j['detail'][:300],"input":str((d or {}).get('input') or (d or {}).get('query'))[:200]}))
