"""Per-property workload sizes, observation requirements, evidence texts."""

COMMON_ASSUME = [
    "the harness build of qrlew (features sqlite, verif-hooks; opt-level 2; overflow checks on) behaves like the shipped library apart from making integer overflow observable",
    "verdicts hold for the executions observed, not for inputs the generators never produce",
]

HOOK_COMMITS = ["fc089a8", "d84b948", "5d45bb1"]  # verif-hooks commits in /repo (fix: commits are listed in known_findings.json)

# properties without a registered check yet (kept current as monitors are added)
NOT_APPLICABLE = {pid: "monitor under construction in this round: no check is registered for it yet (runtime monitoring does apply; see DESIGN.md §3)"
                  for pid in ["C%02d" % i for i in range(1, 19)]}

PROPS = {
    "C01": {
        "technique": "runtime monitoring: staged zero-noise SQLite execution of the DP-rewritten query on D and on neighbouring databases (one privacy unit removed / added), released-key stage of D pinned into the neighbour run; the L2 distance over all groups between the pre-noise vectors of each noised column is compared with the clipping bound the noise was calibrated with",
        "level_text": "Exploration: ~15k neighbouring pairs per quick run on databases built to hurt (units with up to 15 rows while the multiplicity estimate is 1-5, values at the declared extremes, units present in every group, NULLs, dangling keys, row privacy), DP queries with sum/count/avg/var/std, DISTINCT splits, 0-2 keys (public, private, mixed), joins along the privacy-unit path and with public tables; clipping is active in roughly 40% of the measured differences.",
        "level_note": "Trusted: SQLite + compatibility layer, the IR matcher locating noise nodes and their input stage, the independent unit attribution, the hook event carrying the clipping bound (sigma itself is read from the IR and tied to the bound by C03).",
        "rule": ("2 DP queries per world x up to 7 neighbours (6 removals + 1 added unit); evaluation = one neighbouring pair; "
                 "distinct non-trivial = distinct (query, parameters, instance) for which some removal changes a pre-noise column."),
        "assumptions": COMMON_ASSUME + ["clamping of the noised value to the declared range happens after the noise (1-Lipschitz, ignored)"],
        "quick": {"shards": 16, "cases": 180, "watchdog_s": 1500, "require": {"evaluations": 10000, "nonzero_differences": 15000, "differences_above_half_the_bound(clipping active)": 5000}},
        "thorough": {"shards": 16, "cases": 6000, "watchdog_s": 14400, "require": {"evaluations": 400000}},
    },
    "C02": {
        "technique": "runtime monitoring: (1) label-flow invariants over every consistent derivation of generated trees, (2) rewriter-arm observations and label flow over the applied derivation itself (hook events: each rule must consume the labels its inputs were rewritten to), (3) channel-cut non-interference on SQLite executions of the DP-rewritten query",
        "level_text": "Exploration: ~25k tree configurations per quick run for the label-flow and arm monitors: for each consistent derivation, a protected table is never labelled Public/Published/DP, no node labelled Public/Published depends on a protected table without a PUP->DP reduce in between, DP labels only on reduces over PUP inputs; for the applied derivation, PUP-labelled nodes carry the privacy-unit columns, synthetic tables are substituted, DP reduces go through the DP aggregation, the root label is acceptable. Channel-cut monitor: ~5k DP queries x 4 variants of the protected tables (everything re-drawn, one cell changed, one unit removed, all emptied): with every noised aggregate column and every thresholded key set pinned to the values of the first run, the final result must be identical.",
        "level_note": "Trusted: the brute-force enumerator and the raw(n) dataflow definition; hook events for 'which arm'.",
        "rule": ("4 queries per generated DP world x synthetic flag x strategy x entry point; evaluation = one tree configuration; distinct non-trivial = distinct configurations."),
        "assumptions": COMMON_ASSUME,
        "quick": {"shards": 16, "cases": 900, "watchdog_s": 1500, "require": {"evaluations": 20000, "derivations_checked": 40000, "applied_derivations_observed": 8000, "applied_derivations_label_flow_checked": 8000, "queries_with_channels_cut": 3500, "variant:0": 3500}},
        "thorough": {"shards": 16, "cases": 12000, "watchdog_s": 14400, "require": {"evaluations": 500000}},
    },
    "C03": {
        "technique": "runtime monitoring: offline checker over the hook event log (calibration parameters per mechanism) cross-checked against the literals of the emitted IR (sigma of every Gaussian term, tau of every threshold filter) and the returned DpEvent",
        "level_text": "Exploration: ~30k DP compilations per quick run (1-3 aggregates incl. DISTINCT splits, var/std, grouped by public / private / mixed keys, joins along the privacy-unit path and with public tables, nested DP sub-queries, joins of two DP sub-queries, HAVING) x DpParameters grid (epsilon 0.01..50, delta 1e-9..0.1, thresholding shares, multiplicities, max groups 1..10) x with/without synthetic data, plus zero-budget requests. For each: every noised column of the IR must be matched by a Gaussian entry with multiplier <= sigma/C, every threshold filter by an epsilon-delta entry it satisfies (independent tau formula), and each aggregation's applied noise must fit its (epsilon, delta) under basic composition for some delta split.",
        "level_note": "Clipping constants are read from the scale-factor projections of the IR and must be among the bounds the noise was calibrated with. Trusted: the Gaussian calibration formula, Acklam's normal quantile (rel. error 1.2e-9), the IR pattern matcher for noise terms / threshold filters. The hook only supplies the clipping bound and the announced split; sigma and tau are read from the IR. Checks calibration formulas, not the DP theorem.",
        "rule": ("4 (query, parameters, synthetic flag) triples per generated DP world; evaluation = one accepted DP compilation; "
                 "distinct non-trivial = distinct triples whose rewritten query contains at least one randomised mechanism."),
        "assumptions": COMMON_ASSUME + ["the events of the applied derivation are the last candidate group all of whose rewritten node names occur in the returned relation"],
        "quick": {"shards": 16, "cases": 500, "watchdog_s": 1500, "require": {"evaluations": 20000, "noised_columns_observed": 40000, "tau_filters_observed": 2000, "budgets_checked": 15000}},
        "thorough": {"shards": 16, "cases": 12000, "watchdog_s": 14400, "require": {"evaluations": 500000}},
    },
    "C04": {
        "technique": "runtime monitoring: staged SQLite execution of DP queries with private grouping keys under scripted noise (zero / constant / PRNG); the key-release pipeline (unit-key pairs after the contribution limit, per-key unit counts, noisy counts, threshold filter, final output) is read stage by stage and checked against the base data and the independent tau formula",
        "level_text": "Exploration: ~15k executions per quick run on databases with singleton keys, shared keys, units spread over more groups than allowed, dangling references; epsilon 1..400 so that tau ranges from ~1.1 to ~100; three noise modes. Checked per run: each unit in <= Cu (key, unit) pairs, the counted column is the tracked privacy unit, counts <= distinct units, survivors = {noisy count > tau}, output keys subset of survivors, a key held by <= 1 unit never released under zero noise, sigma and tau at least what (eps, delta) x share requires.",
        "level_note": "Trusted: SQLite + compatibility layer, the IR pattern matcher (tau filter, noise node), the independent unit attribution over base data, Acklam's normal quantile.",
        "rule": ("3 (query, parameters, noise mode) triples per generated DP world with a private `city`; evaluation = one staged execution; distinct non-trivial = distinct executions containing a threshold pipeline."),
        "assumptions": COMMON_ASSUME,
        "quick": {"shards": 16, "cases": 350, "watchdog_s": 1500, "require": {"evaluations": 10000, "threshold_pipelines_observed": 10000, "noisy_counts_checked": 50000, "released_keys_checked_against_base_data": 1500, "output_keys_checked": 8000}},
        "thorough": {"shards": 16, "cases": 10000, "watchdog_s": 14400, "require": {"evaluations": 300000}},
    },
    "C05": {
        "technique": "runtime monitoring: the privacy-unit-preserving rewriting executed on SQLite on D and on D restricted to each single unit (independent attribution of base rows along the declared foreign keys); the rows attributed to u in the full result must equal the result on D|u",
        "level_text": "Exploration: ~10k tracked rewritings per quick run (maps with filters/expressions, joins tracked x tracked / tracked x public / public x tracked of several kinds, union, per-unit aggregation, DISTINCT, ORDER BY/LIMIT, row privacy) under both strategies, hashed and unhashed ids, with dangling references; ~5 restrictions each. Also: no NULL unit/weight, no row attributed to an unknown unit, a restricted database yields a single unit.",
        "level_note": "Also refused: a result without privacy-unit columns for a query reading a protected table, and a rewriting the engine rejects for a missing column. Worlds: relation names differing from keys, weight columns, a table whose unit is a non-unique column, non-key / outer / cross joins of tracked tables. Trusted: SQLite + compatibility layer (md5 cross-checked against RFC 1321 vectors), the independent unit attribution. Row-privacy ids are random: compared modulo the id column.",
        "rule": ("3 (query, strategy) pairs per generated DP world (2..6 users); evaluation = one tracked result; distinct non-trivial = distinct (query, strategy, hash flag, instance shape) with a non-empty result."),
        "assumptions": COMMON_ASSUME,
        "quick": {"shards": 16, "cases": 300, "watchdog_s": 1500, "require": {"evaluations": 6000, "restrictions_executed": 20000, "tracked_results:Soft": 2000, "tracked_results:Hard": 3000}},
        "thorough": {"shards": 16, "cases": 10000, "watchdog_s": 14400, "require": {"evaluations": 200000}},
    },
    "C06": {
        "technique": "runtime monitoring: soundness oracle (independent membership) over value()/super_image() call pairs for every function and aggregate of the enums and for generated expression trees, violations localised to the lowest failing node",
        "level_text": "Exploration: for each of the 91 function variants, 20 aggregates and random expression trees (depth <= 4), argument types biased to range boundaries are drawn, several member values evaluated, and each result must lie in the propagated range (float tolerance 1e-9). ~3M judged evaluations per quick run; every function of the enum must have been evaluated or the run is inconclusive.",
        "level_note": "Trusted: membership oracle, generators. value() results that are NULL although no argument is NULL are the library's way of swallowing an evaluation error and count as 'no evaluation'. Float tolerance 1e-9 relative / 1e-12 absolute.",
        "rule": ("per case one function (round-robin over the whole enum; build breaks if a variant has no argument spec), "
                 "argument types from the function's usual kinds (5/6) or arbitrary scalars (1/6), optional with prob 1/5; 6 value tuples per type tuple; "
                 "aggregates over list types (size 0..8); expression trees over 5 typed columns. evaluation = one (S, v) pair on which value() returned a result; "
                 "distinct non-trivial = distinct (function, S, v) whose propagated range is not `any`."),
        "assumptions": COMMON_ASSUME + ["NULL produced from non-NULL arguments = swallowed evaluation error (not judged)",
                                        "NaN, chrono extreme years and strings starting with U+10FFFF are outside the generated domain"],
        "quick": {"shards": 16, "cases": 60000, "require": {"evaluations": 500000, "fn": 300000, "agg": 50000, "tree_evaluations": 100000}},
        "thorough": {"shards": 16, "cases": 2500000, "watchdog_s": 7200, "require": {"evaluations": 20000000}},
    },
    "C07": {
        "technique": "runtime monitoring: generated SQL compiled to relations and executed *staged* on SQLite (one temp table per IR node); every node's rows are checked against its declared field types and size interval",
        "level_text": "Exploration: ~25k generated queries per quick run (joins of all kinds, set operations, aggregates, DISTINCT, CTEs, derived tables, ORDER/LIMIT/OFFSET, targeted size probes) on conforming instances with empty tables, boundary values, NULLs and unmatched keys; ~10 IR nodes observed per query, each value decoded by declared type and tested with the membership oracle; one report per defect (consumers of a violating node are not judged again).",
        "level_note": "Trusted: SQLite 3.40 + the declared compatibility layer (greatest, least, md5, concat, char_length, variance, stddev; VALUES alias shim), sqlparser, the membership oracle. Portable fragment only (ASCII text, no float->int/text casts, no dates).",
        "rule": ("catalogue of 2-4 tables (id, foreign-key shaped ref, 2-5 typed columns, 25% nullable, declared size exact / interval, 0..12 rows) x 4 queries. "
                 "evaluation = one executed IR node; distinct non-trivial = distinct (query, instance shape) pairs that executed."),
        "assumptions": COMMON_ASSUME + ["SQLite executes the PostgreSQL rendering with PostgreSQL meaning inside the portable fragment"],
        "quick": {"shards": 16, "cases": 1500, "watchdog_s": 1500, "require": {"evaluations": 150000, "executed_queries": 15000, "node:Join:LeftOuter": 1000, "node:Set:Union": 500, "node:Reduce": 5000}},
        "thorough": {"shards": 16, "cases": 40000, "watchdog_s": 14400, "require": {"evaluations": 5000000}},
    },
    "C14": {
        "technique": "runtime monitoring: same staged executions as C07; every field flagged UNIQUE / PRIMARY KEY at every IR node must have pairwise distinct non-NULL values",
        "level_text": "Exploration: ~25k generated queries per quick run, half of them aimed at what uniqueness depends on (projections through functions listed as bijections, single/multiple GROUP BY keys with only some selected, joins on unique / non-unique keys of all kinds with the key equality written in either operand order, UNION ALL, DISTINCT, LIMIT); ~50k flagged columns checked.",
        "level_note": "Trusted: as C07. Values compare exactly (1 = 1.0, 0.0 = -0.0).",
        "rule": ("as C07 with targeted uniqueness queries; evaluation = one executed IR node; distinct non-trivial = distinct executed (query, instance shape) pairs"),
        "assumptions": COMMON_ASSUME + ["base tables honour their own UNIQUE / PRIMARY KEY flags (checked before every case)"],
        "quick": {"shards": 16, "cases": 1500, "watchdog_s": 1500, "require": {"evaluations": 150000, "unique_columns_checked": 30000, "unique_in:Reduce": 3000, "unique_in:Join:Inner": 2000}},
        "thorough": {"shards": 16, "cases": 40000, "watchdog_s": 14400, "require": {"evaluations": 5000000}},
    },
    "C08": {
        "technique": "runtime monitoring: differential execution on SQLite of the original SQL text and of the SQL rendered from the parsed relation (same engine on both sides), comparing column count/order/names, row multisets, ordering and LIMIT containment",
        "level_text": "Exploration: ~20k generated queries per quick run over generated catalogues and instances (expressions mixing aggregates and scalars, GROUP BY on expressions and aliases, HAVING, DISTINCT, CTEs incl. ones shadowing table names, derived tables, joins ON/USING of all kinds, set operations, ORDER BY/LIMIT/OFFSET, qualified/aliased/quoted names, string literals with quotes and special characters). The engine is strict about unknown double-quoted names (DQS off), so an invalid rendering is rejected rather than silently mis-executed.",
        "level_note": "Trusted: SQLite + compatibility layer on both sides (dialect quirks cancel), sqlparser, the multiset comparison (numbers rounded to 10 significant digits). SELECT * over USING joins is compared by name; LIMIT without total order by count + containment.",
        "rule": ("4 queries per catalogue (3 grammar-generated, 1 literal/identifier probe). evaluation = one query executed both ways; "
                 "distinct non-trivial = distinct queries whose original result is non-empty."),
        "assumptions": COMMON_ASSUME + ["the original query's meaning is what SQLite computes for it (portable fragment)"],
        "quick": {"shards": 16, "cases": 1200, "watchdog_s": 1500, "require": {"evaluations": 40000, "order_checked": 5000, "feature:set_operation": 1000, "feature:group_by": 3000, "feature:join_using": 800, "feature:literals_identifiers": 10000}},
        "thorough": {"shards": 16, "cases": 40000, "watchdog_s": 14400, "require": {"evaluations": 1500000}},
    },
    "C09": {
        "technique": "runtime monitoring: DP-rewritten queries executed staged on SQLite with the random source scripted per stage (constant 1.0 on noise nodes => exactly zero noise, distinct draws elsewhere), compared with the original query on the same instance; premises (all scale factors = 1, referential integrity) are observed, not assumed",
        "level_text": "Exploration: ~12k zero-noise executions per quick run of DP-compiled aggregation queries (ungrouped or grouped by public-valued keys, joins along the privacy-unit path and with public tables, filters, nullable columns, DISTINCT aggregates, several aggregates of one column, var/std, nested DP sub-queries). Oracle: original groups are all present, extra groups only for public values absent from the data with zero count/sum, COUNT/SUM/AVG equal within 1e-9, VAR/STD equal to the population or the sample statistic of the data.",
        "level_note": "Half of the judged cases are re-run with the tightest multiplicity the data allows; clipping that is active although no unit exceeds the multiplicity the bounds were built with (read from the bound of a count column) is a violation. Trusted: SQLite + compatibility layer, the scripted random source (selftest: sqrt(-2 ln 1) cos(..) = 0), the reference statistics computed by SQL on the original data. Runs where a premise fails are counted, not judged.",
        "rule": ("4 queries per generated DP world (3..10 users, <= 3 orders per user, <= 2 items per order, no dangling keys), parameters with generous multiplicity; "
                 "evaluation = one zero-noise execution; distinct non-trivial = distinct (query, instance shape) judged (premises hold)."),
        "assumptions": COMMON_ASSUME + ["an original aggregate that is NULL (empty / all-NULL group) is not compared"],
        "quick": {"shards": 16, "cases": 350, "watchdog_s": 1500, "require": {"evaluations": 8000, "judged": 8000, "scale_factors_observed": 200000, "compared:avg": 2000, "compared:variance": 800}},
        "thorough": {"shards": 16, "cases": 10000, "watchdog_s": 14400, "require": {"evaluations": 200000}},
    },
    "C10": {
        "technique": "runtime monitoring: generated predicates evaluated by an independent three-valued evaluator on member rows; satisfying rows must be members of DataType::filter's result / of the join's output field types",
        "level_text": "Exploration: ~30k predicates (comparisons col/literal and col/col in both orders, int vs float, IN lists, AND/OR/NOT nests, IS NULL, boolean columns and literals, opaque sub-terms) x 8 rows each on struct types with optional columns, literals placed at the boundaries of the column ranges; plus joins of the four kinds whose ON clause is such a predicate, observed through the join schema. A satisfying row outside the narrowed type is reported with the witness.",
        "level_note": "Columns: integer, float, text, boolean, date, datetime, time (optional or not). Trusted: the harness's three-valued predicate evaluator and membership oracle. Comparisons mixing integers and floats beyond 2^53 are left undecided.",
        "rule": ("struct of 5 columns (2 int, float, text, bool; each optional with prob 1/4; ranges near the literals 3/4 of the time, hostile otherwise); "
                 "predicate depth <= 3; rows drawn inside the type (endpoints favoured). evaluation = one (type, predicate, row) triple; "
                 "distinct non-trivial = distinct triples whose row satisfies the predicate (the only ones the property constrains)."),
        "assumptions": COMMON_ASSUME + ["SQL three-valued logic decides which rows satisfy a predicate"],
        "quick": {"shards": 16, "cases": 40000, "require": {"evaluations": 1000000, "rows_satisfying": 200000, "pairs_matching": 50000, "narrowed_types": 50000}},
        "thorough": {"shards": 16, "cases": 1500000, "watchdog_s": 7200, "require": {"evaluations": 30000000}},
    },
    "C12": {
        "technique": "runtime monitoring: inject_into / super_image / value / as_data_type observed on generated (source type, target type, adjacent value pair) triples; oracle = membership in the converted type, numeric equality, injectivity on adjacent values, round trip",
        "level_text": "Exploration: ~1M conversions per quick run over all ordered pairs of scalar variants plus optional/list/struct/set/array liftings; values come in adjacent pairs (neighbouring integers around 2^53, adjacent floats, strings differing by one character, consecutive dates) so that a loss of injectivity is observed directly.",
        "level_note": "One case in five exercises the typed conversions (injection::From(A).into(B)) for 13 scalar pairs, which the DataType-level API only partly exposes; finite sets must not convert to fewer values. Trusted: membership oracle and canonical numeric equality. Round trips are judged for scalar sources only.",
        "rule": ("evaluation = one converted value; distinct non-trivial = distinct (A, B, v) with a successful conversion. "
                 "Refused conversions are counted per variant pair, not judged."),
        "assumptions": COMMON_ASSUME,
        "quick": {"shards": 16, "cases": 60000, "require": {"evaluations": 600000, "pairs_checked_for_injectivity": 300000, "round_trips": 100000}},
        "thorough": {"shards": 16, "cases": 3000000, "watchdog_s": 7200, "require": {"evaluations": 30000000}},
    },
    "C13": {
        "technique": "runtime monitoring: the public rule pipeline (set / eliminate / select) and both entry points observed on generated relation trees; oracle = brute-force enumeration of all consistent rule assignments over the attached rules, the library's own Score visitor, and the hook event carrying the score of the derivation actually applied",
        "level_text": "Exploration: ~25k (tree, synthetic flag, strategy, entry point) combinations per quick run, trees of 2..14 nodes (DP queries, PUP queries, sets, public-only, nested DP sub-queries, three-way joins). Checked: select's output = brute-force set (completeness, no extra), each selected derivation well-typed, the entry point succeeds iff an acceptable derivation exists, the applied derivation's score equals the maximum over acceptable consistent derivations.",
        "level_note": "Trusted: the brute-force enumerator (tree semantics), the library's Score visitor as the definition of 'score'. Trees over 14 nodes or 20k labelings are skipped and counted.",
        "rule": ("4 queries per generated DP world; evaluation = one tree x configuration; distinct non-trivial = distinct (query, synthetic flag, strategy, entry point)."),
        "assumptions": COMMON_ASSUME,
        "quick": {"shards": 16, "cases": 500, "watchdog_s": 1500, "require": {"evaluations": 20000, "scores_compared": 10000, "entry_err": 2000, "labelings_enumerated": 40000}},
        "thorough": {"shards": 16, "cases": 12000, "watchdog_s": 14400, "require": {"evaluations": 500000}},
    },
    "C15": {
        "technique": "runtime monitoring: Hierarchy::get / get_key_value / Index compared with a 10-line reference model on exhaustive small scopes and random path maps; SQL queries naming a column present in both joined tables must not be accepted",
        "level_text": "Exploration, exhaustive on a small scope: all maps of <= 3 entries over 2 symbols and depth <= 3 x all lookup paths of depth <= 4 (469 maps x 31 paths) every run; random maps of 1..12 entries with shared suffixes, nested prefixes, odd names, looked up by every suffix, extension and near-miss; ~5k generated join queries whose unqualified column is in both / one / none of the tables (ON, USING, NATURAL, CROSS; aliases).",
        "level_note": "SQL level: the shared / unknown name in eight positions (select, where x 7 predicate shapes, group by, order by, aggregate argument, outside a derived table or CTE selecting *, ON clause), CTE names shadowing tables or outer CTEs, self-joins without alias. Trusted: the reference lookup model. At the SQL level a panic counts as a refusal here (it is C18's subject); only an accepted ambiguous or unknown name is a violation.",
        "rule": ("evaluation = one lookup or one query; distinct non-trivial = distinct maps / distinct (tables, query) pairs. "
                 "Lookups are classified exact / unique-suffix / ambiguous / no-candidate and all four classes must be hit."),
        "assumptions": COMMON_ASSUME,
        "quick": {"shards": 16, "cases": 30000, "require": {"evaluations": 1000000, "lookup:ambiguous": 100000, "lookup:unique-suffix": 100000, "lookup:exact": 100000, "sql:ambiguous": 5000, "exhaustive_maps": 469}},
        "thorough": {"shards": 16, "cases": 1500000, "watchdog_s": 7200, "require": {"evaluations": 50000000}},
    },
    "C11": {
        "technique": "runtime monitoring: law-checking oracle with an independent membership model over generated type pairs/values, and a naive interval-set model checked after every operation of generated histories",
        "level_text": "Exploration: millions of (A, B, v) law instances and ~60k interval-set histories per quick run are judged by an independent membership oracle / naive model; a violation comes with the witness types and value. Sound for what is observed; says nothing about pairs the generators do not produce.",
        "level_note": "Function types / values are judged with the library's own contains (same-variant domains). Pairs include the same bounds read in the neighbouring variant (date/datetime, int/float, bool/int). Trusted: the 200-line structural membership oracle (harness/src/oracle/member.rs), the naive interval model, the generators. Cross-family pairs are exercised but not judged.",
        "rule": ("random pairs of data types (all variants, depth <= 2; B is A united/intersected with a fresh type, A itself, "
                 "option(A), a fresh type of the same variant, or unrelated) x values drawn inside A, inside B and arbitrary; "
                 "laws judged with an independent structural membership oracle on same-family pairs (numeric, temporal, "
                 "optional-of-scalar, equal composites); plus histories of 5..250 interval-set unions/intersections on "
                 "i64/f64/String/date checked against a naive unbounded model after every operation. "
                 "evaluations = (pair, value) law instances + interval operations; distinct non-trivial = distinct "
                 "(A, B, v) triples on which the oracle could judge both memberships, plus distinct histories."),
        "assumptions": COMMON_ASSUME + [
            "cross-family pairs (e.g. float vs struct) mean 'injectable into' in the library and are exercised but not judged",
            "collections are homogeneous; NaN and chrono's extreme years are outside the generated domain",
        ],
        "quick": {"shards": 16, "cases": 12000, "require": {"evaluations": 1000000, "hist_crossed_capacity": 200, "subset_true": 5000}},
        "thorough": {"shards": 16, "cases": 600000, "watchdog_s": 3600, "require": {"evaluations": 20000000}},
    },
    "C18": {
        "technique": "runtime monitoring: every public compilation entry point (parse -> relation, schema/size, rendering, privacy-unit and DP rewriting) called under catch_unwind with a logical work budget (hook `tick`), overflow checks on, in subprocess shards with an in-flight log (aborts and stack overflows are seen as a dead shard with its last case)",
        "level_text": "Exploration: ~60k queries per quick run over hostile schemas (i64::MIN/MAX, +-f64::MAX, ranges containing / touching zero, zero-width ranges, 100+ interval pieces, huge integer ranges, nullable everything, declared sizes 0 and i64::MAX) with the full function list and joins of aggregating sub-queries, plus a second grammar of syntactically valid but unsupported constructs whose required outcome is an error value; DpParameters include zero budgets and shares 0 / 1. Outcome must be Ok or Err: a panic, an exhausted work budget (2e9 interval operations / enumerated values) or a dead process is a violation, keyed by entry point + panic site.",
        "level_note": "Workload includes every function name the reader knows with 0-4 arguments, aggregates of arithmetic over unbounded columns, bare columns next to aggregates. Trusted: catch_unwind + the panic hook recording the site, the tick hook (interval operations and value enumeration). A wall-clock watchdog only yields 'inconclusive'.",
        "rule": ("4 queries per catalogue (3/4 supported grammar, 1/4 unsupported grammar) x 5 entry points; evaluation = one entry-point call; distinct non-trivial = distinct (query, schema) pairs."),
        "assumptions": COMMON_ASSUME,
        "crash_is_violation": True,
        "quick": {"shards": 16, "cases": 1200, "watchdog_s": 1500, "require": {"evaluations": 200000, "ok:dp_rewriting:supported": 2000, "err:parse:unsupported": 2000}},
        "thorough": {"shards": 16, "cases": 40000, "watchdog_s": 14400, "require": {"evaluations": 6000000}},
    },
    "C16": {
        "technique": "runtime monitoring: (a) histories - a corpus recompiled in random order with other compilations (incl. DP rewritings that consume the global counters) in between, compared with a fresh-state reference, `namer_count` hook events name the cause; (b) 8 threads compiling the corpus concurrently behind a barrier with yields injected before the counter's lock; (c) render twice / reparse / re-render / execute on SQLite; thorough: the same two-thread comparison under Miri with many scheduler seeds",
        "level_text": "Exploration: per quick run ~40k recompilations inside histories, ~300k compilations from 8 concurrent threads (1.2k barrier rounds), ~3k fixpoint checks with execution. A recompilation must be structurally equal (==), have the same Display and the same rendered SQL as the reference; the rendered SQL must be stable, parse back to the same output names, to types containing the original ones and to the same results.",
        "level_note": "Trusted: Relation's PartialEq / Display, SQLite for the result comparison. The fresh-process reference is approximated by namer::reset(). Thorough tier adds a Miri leg (8 scheduler seeds of 2 threads x 2 compilations, /verif/miri_c16): undefined behaviour / data races on the compile path; its status is in coverage.miri_leg and an unavailable interpreter never changes the verdict.",
        "rule": ("case mix: 2/4 histories (11 queries x 3 positions each), 1/4 thread rounds (8 threads x 6 rounds x 6 queries), 1/4 fixpoint (3 queries); "
                 "evaluation = one recompilation / thread compilation / fixpoint check; distinct non-trivial = distinct (query, position) that compiled."),
        "assumptions": COMMON_ASSUME,
        "quick": {"shards": 16, "cases": 250, "watchdog_s": 1500, "require": {"evaluations": 100000, "recompilations_in_a_history": 20000, "compilations_in_threads": 100000, "fixpoint_executions": 1500}},
        "thorough": {"shards": 16, "cases": 8000, "watchdog_s": 14400, "require": {"evaluations": 3000000}},
    },
    "C17": {
        "technique": "runtime monitoring: every generated relation (from the supported fragment, from DP rewriting, and over catalogues whose names need quoting) is rendered by the eight translators; oracle = the dialect's own sqlparser parser, the library's reader for the seven readable dialects (output names, order, types), and SQLite execution of the SQLite translation on a plain connection against the reference rendering",
        "level_text": "Exploration: ~4k relations x 8 dialects per quick run. Per dialect: the text must parse with that dialect's parser; reading it back with the same translator must give the same column names in order and types containing the original ones; the SQLite text must run on an engine without any compatibility function and return the reference rows; reserved words, spaces, quotes and dots in table/column names must survive. Execution on MySQL, MS SQL, BigQuery, Hive, Databricks, Redshift and PostgreSQL themselves is impossible offline and is not covered.",
        "level_note": "The SQLite translation is executed on a plain connection and compared both with the reference rendering and with the original query (the renderings share one relation-to-query visitor). Trusted: sqlparser's dialect parsers (the only offline parsers for seven dialects), SQLite. Read-back types may be wider than the original (ranges are re-derived); narrower or different is a violation.",
        "rule": ("per case 2 generated queries (x2), one DP-rewritten relation, one special-name query; evaluation = one (relation, dialect) translation; distinct non-trivial = distinct source queries."),
        "assumptions": COMMON_ASSUME + ["acceptance by sqlparser's dialect parser stands for 'valid target-dialect SQL' where no engine is available"],
        "quick": {"shards": 16, "cases": 300, "watchdog_s": 1500, "require": {"evaluations": 30000, "parsed:mysql": 3000, "read_back:postgresql": 2500, "sqlite_executions": 1500, "dp_rewritten_relations": 500, "special_name_relations": 500}},
        "thorough": {"shards": 16, "cases": 8000, "watchdog_s": 14400, "require": {"evaluations": 800000}},
    },
}
