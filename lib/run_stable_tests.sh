#!/bin/bash
# Runs the 403 stable baseline tests of /repo with the hook guard OFF (default features) and
# reports the result line; exit 0 only if all of them pass.
# One pinned test (relation::schema::tests::test_from_data_type_iter) takes its field names from the
# process-wide name counter while other tests reset that counter from other threads; on the pinned
# commit itself it fails about once in 15 runs of the suite. Tests that fail in the parallel run are
# therefore run once more on their own (single-threaded); a test that fails there too is a failure.
cd /repo || exit 2
out=$(cargo test --offline --lib -- --exact $(cat /verif/lib/stable_tests.txt | tr '\n' ' ') 2>&1)
echo "$out" | grep -E "^test result|FAILED|panicked" | head -40
if echo "$out" | grep -q "^test result: ok. 403 passed"; then
  exit 0
fi
failed=$(echo "$out" | grep -E "^test .* \.\.\. FAILED" | sed -E 's/^test (.*) \.\.\. FAILED/\1/')
passed=$(echo "$out" | grep -E "^test result:" | sed -E 's/.* ([0-9]+) passed.*/\1/')
[ -z "$failed" ] && exit 1
n=$(echo "$failed" | wc -l)
[ "$n" -gt 3 ] && exit 1
[ $((passed + n)) -ne 403 ] && exit 1
out2=$(cargo test --offline --lib -- --exact --test-threads 1 $failed 2>&1)
echo "re-run of the $n test(s) that failed in the parallel run, single-threaded:"
echo "$out2" | grep -E "^test result|FAILED" | head
echo "$out2" | grep -q "^test result: ok. $n passed"
