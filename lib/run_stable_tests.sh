#!/bin/bash
# Runs the 403 stable baseline tests of /repo with the hook guard OFF (default features) and
# reports the result line; exit 0 only if all of them pass.
cd /repo && out=$(cargo test --offline --lib -- --exact $(cat /verif/lib/stable_tests.txt | tr '\n' ' ') 2>&1)
echo "$out" | grep -E "^test result|FAILED|panicked" | head -40
echo "$out" | grep -q "^test result: ok. 403 passed"
