#!/usr/bin/env python3
"""Summarise /verif/seeded/*/*/result.json as a markdown table (written to /verif/seeded/RESULTS.md)."""
import glob, json, os

rows = []
for d in sorted(glob.glob('/verif/seeded/C*/*/')):
    rp = os.path.join(d, 'result.json')
    mp = os.path.join(d, 'meta.json')
    if not os.path.exists(mp):
        continue
    m = json.load(open(mp))
    res = json.load(open(rp)) if os.path.exists(rp) else {'history': []}
    hist = res.get('history', [])
    # the last run of each (check, tier)
    last = {}
    for h in hist:
        last[(h['check'], h['tier'])] = h
    caught_by = sorted({f"{c} {t}" for (c, t), h in last.items() if h['caught']})
    missed_by = sorted({f"{c} {t}" for (c, t), h in last.items() if not h['caught']})
    sigs = []
    for (c, t), h in last.items():
        if h['caught']:
            sigs += h['signatures'][:2]
    first_missed = any(not h['caught'] for h in hist[:1])
    rows.append({
        'id': os.path.relpath(d, '/verif/seeded').strip('/'),
        'title': (m.get('title') or '').replace('|', '/'),
        'files': ', '.join(m.get('files', []))[:80],
        'caught_by': ', '.join(caught_by) or '—',
        'missed_by': ', '.join(missed_by),
        'first_run_missed': first_missed,
        'signature': (sigs[0] if sigs else '').replace('|', '/')[:110],
        'note': m.get('status_after_fix', '')[:160],
    })

out = ['# Seeded changes and what the checks report with each applied', '',
       '`first run` = outcome of the very first trial of the property\'s own quick check, before any strengthening.', '',
       '| seed | change | caught by (latest run) | first run | example signature |', '|---|---|---|---|---|']
for r in rows:
    out.append(f"| {r['id']} | {r['title']} ({r['files']}) | {r['caught_by']}{(' — missed by ' + r['missed_by']) if r['missed_by'] and r['caught_by'] == '—' else ''} | "
               f"{'missed' if r['first_run_missed'] else 'caught'} | {r['signature'] or r['note']} |")
n = len(rows)
c = sum(1 for r in rows if r['caught_by'] != '—')
out += ['', f'{c} of {n} seeded changes are reported by a check in its latest run.']
open('/verif/seeded/RESULTS.md', 'w').write('\n'.join(out) + '\n')
print('\n'.join(out[-3:]))
