#!/bin/bash
# Run every seeded change of /verif/seeded against the check of its property (quick tier) and
# summarise. Applies each patch to /repo, runs the check, restores the tree (see lib/try_seed.py).
# usage: lib/seed_sweep.sh [tier] [seed]
tier=${1:-quick}; seed=${2:-1}
cd /verif
for d in seeded/C*/*/; do
  [ -f "$d/patch.diff" ] || continue
  python3 lib/try_seed.py "/verif/$d" --tier "$tier" --seed "$seed"
done
