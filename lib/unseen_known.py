#!/usr/bin/env python3
"""List the known-finding signatures of a property that a few quick runs no longer observe (candidates for `fixed`)."""
import json, subprocess, sys, os, re
pid = sys.argv[1]; seeds = sys.argv[2:] or ['1', '2', '3']
seen = set()
for s in seeds:
    out = subprocess.run(['/verif/check', pid, 'quick'], env=dict(os.environ, VERIF_SEED=s), capture_output=True, text=True).stdout
    for l in out.splitlines():
        if l.startswith('KNOWN-FINDING:'):
            m = re.search(r'\[(' + pid + r'\|.*)\] \(seen', l)
            if m:
                seen.add(m.group(1))
for k in json.load(open('/verif/known_findings.json'))['findings']:
    if k['property'] == pid and k.get('status', 'known') == 'known' and k['signature'] not in seen:
        print(k['signature'])
