//! Shared helpers of the DP monitors: compiling with the hook sink on, selecting the events of the
//! applied derivation, and reading the randomised mechanisms back from the returned IR.
use crate::gen::catalog::DpWorld;
use crate::util::*;
use qrlew::differential_privacy::{DpEvent, DpParameters};
use qrlew::expr::function::Function as F;
use qrlew::expr::{Expr, Identifier};
use qrlew::hierarchy::Hierarchy;
use qrlew::privacy_unit_tracking::{PrivacyUnit, Strategy};
use qrlew::relation::{Relation, Variant as _};
use qrlew::synthetic_data::SyntheticData;
use qrlew::verif_hooks::{self, Event};
use std::collections::HashMap;
use std::sync::Arc;

pub struct DpCompiled {
    pub relation: Relation,
    pub dp_event: DpEvent,
    /// events of the applied derivation only
    pub events: Vec<Event>,
    /// events of all the candidates the entry point rewrote
    pub all_events: Vec<Event>,
    pub choice_score: Option<f64>,
    pub n_candidates_rewritten: usize,
}

pub enum Outcome<T> {
    Ok(T),
    Err(String),
    Panic(PanicInfo),
}

pub fn synthetic_data(w: &DpWorld) -> SyntheticData {
    synthetic_data_for(w, &w.cat.tables.iter().map(|t| t.name.clone()).collect::<Vec<_>>())
}

/// Synthetic replacements declared for some of the tables only
pub fn synthetic_data_for(w: &DpWorld, tables: &[String]) -> SyntheticData {
    SyntheticData::new(
        w.cat
            .tables
            .iter()
            .filter(|t| tables.contains(&t.name))
            .map(|t| (vec![t.name.clone()], Identifier::from(format!("{}_sd", t.name))))
            .collect::<Hierarchy<Identifier>>(),
    )
}

/// Split the event stream into one group per rewritten candidate (each starts with a
/// `rewrite_begin` marker) and keep the group of the applied derivation: the last one all of
/// whose rewritten nodes are nodes of the relation the entry point returned.
fn select_events(all: &[Event], returned: &Relation) -> (Vec<Event>, usize) {
    let mut groups: Vec<Vec<Event>> = vec![];
    for e in all.iter() {
        if e.kind == "rewrite_choice" {
            continue;
        }
        if e.kind == "rewrite_begin" {
            groups.push(vec![]);
        }
        if let Some(g) = groups.last_mut() {
            g.push(e.clone());
        }
    }
    let n = groups.len();
    let mut names = HashMap::new();
    walk(returned, &mut names);
    let chosen = groups
        .iter()
        .rev()
        .find(|g| {
            g.iter()
                .filter(|e| e.kind == "rewrite_node")
                .all(|e| e.str("output_name").map_or(false, |o| names.contains_key(o)))
        })
        .cloned();
    (chosen.unwrap_or_default(), n)
}

pub fn dp_compile(
    rel: &Relation,
    relations: &Hierarchy<Arc<Relation>>,
    sd: Option<SyntheticData>,
    pu: PrivacyUnit,
    params: DpParameters,
) -> Outcome<DpCompiled> {
    let res = guarded(|| {
        verif_hooks::install_sink();
        let r = rel.rewrite_with_differential_privacy(relations, sd, pu, params);
        let ev = verif_hooks::take_events();
        (r.map_err(|e| e.to_string()), ev)
    });
    match res {
        Err(p) => {
            let _ = verif_hooks::take_events();
            Outcome::Panic(p)
        }
        Ok((Err(e), _)) => Outcome::Err(e),
        Ok((Ok(rw), all)) => {
            let choice = all.iter().rev().find(|e| e.kind == "rewrite_choice");
            let score = choice.and_then(|e| e.f64("score"));
            let (events, n) = select_events(&all, rw.relation());
            Outcome::Ok(DpCompiled {
                relation: rw.relation().clone(),
                dp_event: rw.dp_event().clone(),
                events,
                all_events: all,
                choice_score: score,
                n_candidates_rewritten: n,
            })
        }
    }
}

pub fn pup_compile(
    rel: &Relation,
    relations: &Hierarchy<Arc<Relation>>,
    sd: Option<SyntheticData>,
    pu: PrivacyUnit,
    params: DpParameters,
    strategy: Strategy,
) -> Outcome<DpCompiled> {
    let res = guarded(|| {
        verif_hooks::install_sink();
        let r = rel.rewrite_as_privacy_unit_preserving(relations, sd, pu, params, Some(strategy));
        let ev = verif_hooks::take_events();
        (r.map_err(|e| e.to_string()), ev)
    });
    match res {
        Err(p) => {
            let _ = verif_hooks::take_events();
            Outcome::Panic(p)
        }
        Ok((Err(e), _)) => Outcome::Err(e),
        Ok((Ok(rw), all)) => {
            let choice = all.iter().rev().find(|e| e.kind == "rewrite_choice");
            let score = choice.and_then(|e| e.f64("score"));
            let (events, n) = select_events(&all, rw.relation());
            Outcome::Ok(DpCompiled {
                relation: rw.relation().clone(),
                dp_event: rw.dp_event().clone(),
                events,
                all_events: all,
                choice_score: score,
                n_candidates_rewritten: n,
            })
        }
    }
}

// ------------------------------------------------------------------ mechanisms in the IR

fn contains_random(e: &Expr) -> bool {
    match e {
        Expr::Function(f) => matches!(f.function(), F::Random(_)) || f.arguments().iter().any(contains_random),
        _ => false,
    }
}

/// sigma of the Gaussian term `sigma * boxmuller(random, random)` inside an expression, if any
pub fn noise_sigma(e: &Expr) -> Option<f64> {
    match e {
        Expr::Function(f) => {
            let args = f.arguments();
            if f.function() == F::Multiply && args.len() == 2 {
                if let (Expr::Value(v), rhs) = (&args[0], &args[1]) {
                    if contains_random(rhs) {
                        return match v {
                            qrlew::data_type::value::Value::Float(x) => Some(**x),
                            qrlew::data_type::value::Value::Integer(x) => Some(**x as f64),
                            _ => None,
                        };
                    }
                }
            }
            args.iter().find_map(noise_sigma)
        }
        _ => None,
    }
}

#[derive(Clone, Debug)]
pub struct NoiseNode {
    pub node: String,
    pub input: String,
    /// (column, sigma)
    pub columns: Vec<(String, f64)>,
    /// columns of the node that carry no noise
    pub plain_columns: Vec<String>,
}

#[derive(Clone, Debug)]
pub struct TauNode {
    pub node: String,
    pub input: String,
    pub tau: f64,
}

fn as_f64(v: &qrlew::data_type::value::Value) -> Option<f64> {
    match v {
        qrlew::data_type::value::Value::Float(x) => Some(**x),
        qrlew::data_type::value::Value::Integer(x) => Some(**x as f64),
        _ => None,
    }
}

/// threshold of a filter `_COUNT_DISTINCT_PID_ > tau` (possibly and-ed with other terms)
fn tau_of(e: &Expr) -> Option<f64> {
    match e {
        Expr::Function(f) => {
            let args = f.arguments();
            if f.function() == F::Gt && args.len() == 2 {
                if let (Expr::Column(c), Expr::Value(v)) = (&args[0], &args[1]) {
                    if c.last().map(|s| s == qrlew::differential_privacy::group_by::COUNT_DISTINCT_PID).unwrap_or(false) {
                        return as_f64(v);
                    }
                }
            }
            args.iter().find_map(tau_of)
        }
        _ => None,
    }
}

/// Clipping constants found in the IR: every projection built around `1 / greatest(1, norm / C)`
/// (the division is rendered as a guarded CASE) in a scale-factor map gives the C the per-unit
/// contribution to one aggregate column is clipped to. Returns (node, field, C).
pub fn clip_constants(rel: &Relation) -> Vec<(String, String, f64)> {
    fn first_div_const(e: &Expr) -> Option<f64> {
        if let Expr::Function(f) = e {
            let a = f.arguments();
            if f.function() == F::Divide && a.len() == 2 {
                if let Expr::Value(v) = &a[1] {
                    return as_f64(v);
                }
            }
            return a.iter().find_map(first_div_const);
        }
        None
    }
    fn clip_of(e: &Expr) -> Option<f64> {
        if let Expr::Function(f) = e {
            let a = f.arguments();
            if f.function() == F::Greatest && a.len() == 2 && matches!(&a[0], Expr::Value(v) if as_f64(v) == Some(1.0)) {
                if let Some(c) = first_div_const(&a[1]) {
                    return Some(c);
                }
            }
            return a.iter().find_map(clip_of);
        }
        None
    }
    let mut seen = HashMap::new();
    walk(rel, &mut seen);
    let mut out = vec![];
    let mut names: Vec<&String> = seen.keys().collect();
    names.sort();
    for name in names {
        if let Relation::Map(m) = seen[name] {
            for (f, e) in m.field_exprs() {
                if contains_random(e) {
                    continue;
                }
                if let Some(c) = clip_of(e) {
                    out.push((name.clone(), f.name().to_string(), c));
                }
            }
        }
    }
    out
}

pub fn walk<'a>(rel: &'a Relation, seen: &mut HashMap<String, &'a Relation>) {
    if seen.contains_key(rel.name()) {
        return;
    }
    seen.insert(rel.name().to_string(), rel);
    for i in rel.inputs() {
        walk(i, seen);
    }
}

pub fn mechanisms(rel: &Relation) -> (Vec<NoiseNode>, Vec<TauNode>) {
    let mut seen = HashMap::new();
    walk(rel, &mut seen);
    let mut noises = vec![];
    let mut taus = vec![];
    let mut names: Vec<&String> = seen.keys().collect();
    names.sort();
    for name in names {
        if let Relation::Map(m) = seen[name] {
            let mut cols = vec![];
            let mut plain = vec![];
            for (f, e) in m.field_exprs() {
                match noise_sigma(e) {
                    Some(s) => cols.push((f.name().to_string(), s)),
                    None => plain.push(f.name().to_string()),
                }
            }
            if !cols.is_empty() {
                noises.push(NoiseNode { node: name.clone(), input: m.input().name().to_string(), columns: cols, plain_columns: plain });
            }
            if let Some(filter) = m.filter() {
                if let Some(t) = tau_of(filter) {
                    taus.push(TauNode { node: name.clone(), input: m.input().name().to_string(), tau: t });
                }
            }
        }
    }
    (noises, taus)
}

/// Flatten a DpEvent
pub fn flatten(e: &DpEvent, out: &mut Vec<DpEvent>) {
    match e {
        DpEvent::NoOp => {}
        DpEvent::Composed { events } => events.iter().for_each(|x| flatten(x, out)),
        other => out.push(other.clone()),
    }
}

// ------------------------------------------------------------------ reference formulas

/// Inverse of the standard normal CDF (Acklam's rational approximation, relative error < 1.2e-9).
/// `upper` = true computes the quantile for probability 1 - p without forming 1 - p.
pub fn norm_ppf_tail(p_tail: f64, upper: bool) -> f64 {
    let a = [-3.969683028665376e+01, 2.209460984245205e+02, -2.759285104469687e+02, 1.383577518672690e+02, -3.066479806614716e+01, 2.506628277459239e+00];
    let b = [-5.447609879822406e+01, 1.615858368580409e+02, -1.556989798598866e+02, 6.680131188771972e+01, -1.328068155288572e+01];
    let c = [-7.784894002430293e-03, -3.223964580411365e-01, -2.400758277161838e+00, -2.549732539343734e+00, 4.374664141464968e+00, 2.938163982698783e+00];
    let d = [7.784695709041462e-03, 3.224671290700398e-01, 2.445134137142996e+00, 3.754408661907416e+00];
    let p_low = 0.02425;
    // quantile for lower-tail probability p_tail
    let lower = |p: f64| -> f64 {
        if p < p_low {
            let q = (-2.0 * p.ln()).sqrt();
            (((((c[0] * q + c[1]) * q + c[2]) * q + c[3]) * q + c[4]) * q + c[5]) / ((((d[0] * q + d[1]) * q + d[2]) * q + d[3]) * q + 1.0)
        } else if p <= 1.0 - p_low {
            let q = p - 0.5;
            let r = q * q;
            (((((a[0] * r + a[1]) * r + a[2]) * r + a[3]) * r + a[4]) * r + a[5]) * q
                / (((((b[0] * r + b[1]) * r + b[2]) * r + b[3]) * r + b[4]) * r + 1.0)
        } else {
            let q = (-2.0 * (1.0 - p).ln()).sqrt();
            -(((((c[0] * q + c[1]) * q + c[2]) * q + c[3]) * q + c[4]) * q + c[5]) / ((((d[0] * q + d[1]) * q + d[2]) * q + d[3]) * q + 1.0)
        }
    };
    if upper {
        -lower(p_tail)
    } else {
        lower(p_tail)
    }
}

pub fn gaussian_multiplier(eps: f64, delta: f64) -> f64 {
    (2.0 * (1.25 / delta).ln()).sqrt() / eps
}

/// tau = 1 + sigma * Phi^-1((1 - delta)^(1/Cu)), computed in the upper tail
pub fn tau_reference(sigma: f64, delta: f64, cu: f64) -> f64 {
    // 1 - (1-delta)^(1/cu) = -expm1(ln(1-delta)/cu)
    let tail = -((-delta).ln_1p() / cu).exp_m1();
    1.0 + sigma * norm_ppf_tail(tail, true)
}
