//! C04 — grouping keys are released only if public or above the tau threshold.
use crate::exec::sqlite::{Db, RandomMode, Rows, V};
use crate::gen::catalog::*;
use crate::mon::dpq::*;
use crate::mon::execq::{compile, render, Compiled};
use crate::util::*;
use qrlew::differential_privacy::group_by::COUNT_DISTINCT_PID;
use qrlew::differential_privacy::DpParameters;
use qrlew::privacy_unit_tracking::PrivacyUnit;
use qrlew::relation::{Relation, Variant as _};
use serde_json::json;
use std::collections::{HashMap, HashSet};

struct KeyQuery {
    sql: String,
    /// base table aggregated and its key column(s) (private ones first)
    table: &'static str,
    private_key: &'static str,
    public_key: Option<&'static str>,
}

fn gen_key_query(r: &mut Rng) -> KeyQuery {
    match r.below(8) {
        6 | 7 => KeyQuery { sql: "SELECT city AS k0, COUNT(*) AS m0, SUM(x) AS m1 FROM visits GROUP BY city".into(), table: "visits", private_key: "city", public_key: None },
        0 => KeyQuery { sql: "SELECT city AS k0, COUNT(*) AS m0 FROM users GROUP BY city".into(), table: "users", private_key: "city", public_key: None },
        1 => KeyQuery { sql: "SELECT city AS k0, tier AS k1, COUNT(*) AS m0, AVG(age) AS m1 FROM users GROUP BY city, tier".into(), table: "users", private_key: "city", public_key: Some("tier") },
        2 => KeyQuery { sql: "SELECT user_id AS k0, SUM(amount) AS m0 FROM orders GROUP BY user_id".into(), table: "orders", private_key: "user_id", public_key: None },
        3 => KeyQuery { sql: "SELECT user_id AS k0, status AS k1, COUNT(*) AS m0 FROM orders GROUP BY user_id, status".into(), table: "orders", private_key: "user_id", public_key: Some("status") },
        4 => KeyQuery { sql: "SELECT order_id AS k0, SUM(price) AS m0 FROM items GROUP BY order_id".into(), table: "items", private_key: "order_id", public_key: None },
        _ => KeyQuery { sql: "SELECT city AS k0, SUM(income) AS m0, COUNT(age) AS m1 FROM users GROUP BY city".into(), table: "users", private_key: "city", public_key: None },
    }
}

fn col_idx(rows: &Rows, name: &str) -> Option<usize> {
    rows.columns.iter().position(|c| c == name)
}

pub fn check(kq: &KeyQuery, w: &DpWorld, params: &DpParameters, mode: &str, seed: u64, rep: &mut Report) {
    let relations = w.cat.relations();
    let rel = match compile(&kq.sql, &relations) {
        Compiled::Ok(r) => r,
        _ => {
            rep.count("parse_error_or_panic");
            return;
        }
    };
    let c = match dp_compile(&rel, &relations, None, w.privacy_unit(), params.clone()) {
        Outcome::Ok(c) => c,
        Outcome::Err(_) => {
            rep.count("dp_refused");
            return;
        }
        Outcome::Panic(_) => {
            rep.count("dp_panic");
            return;
        }
    };
    let (noises, taus) = mechanisms(&c.relation);
    let rendered = match render(&c.relation) {
        Ok(s) => s,
        Err(_) => {
            rep.count("render_panic");
            return;
        }
    };
    if taus.is_empty() {
        // every key query groups by a private key: without a threshold filter no such key may come out
        rep.count("no_threshold_filter");
        let db = Db::new(true, RandomMode::Counter);
        if w.cat.load(&db).is_err() {
            return;
        }
        if let Ok(result) = db.run_rendered(&rendered) {
            rep.eval();
            let released = result.col("k0").map_or(0, |i| result.rows.iter().filter(|r| !r[i].is_null()).count());
            if released > 0 {
                rep.violation(
                    "C04|release|private keys in the result of a rewriting that contains no threshold filter".to_string(),
                    format!("{} rows with a private key value are returned and the rewritten relation has no `_COUNT_DISTINCT_PID_ > tau` filter", released),
                    json!({"catalog": w.cat.to_json(40), "query": kq.sql, "rendered": rendered, "dp_parameters": format!("{:?}", params), "result": result.to_json(20)}),
                );
            }
        }
        return;
    }
    let mut nodes: HashMap<String, &Relation> = HashMap::new();
    walk(&c.relation, &mut nodes);
    let db = Db::new(true, RandomMode::Counter);
    if w.cat.load(&db).is_err() {
        return;
    }
    let noise_names: HashSet<String> = noises.iter().map(|n| n.node.clone()).collect();
    let noise_mode = match mode {
        "zero" => RandomMode::Const(1.0),
        "const" => RandomMode::Const(0.3),
        _ => RandomMode::Prng(seed | 1),
    };
    let staged = db.staged_with(
        &rendered,
        &mut |db, name| {
            if noise_names.contains(name) {
                db.set_random(noise_mode.clone());
            } else {
                db.set_random(RandomMode::Counter);
            }
        },
        &mut |_, _, _| Ok(()),
    );
    let (stages, result) = match staged {
        Ok(x) => x,
        Err(e) => {
            rep.count("execution_error");
            if rep.notes.len() < 6 {
                rep.notes.push(format!("execution error: {} on {}", e.chars().take(300).collect::<String>(), kq.sql));
            }
            return;
        }
    };
    rep.eval();
    rep.count(&format!("executed:{}", mode));
    let stage: HashMap<&str, &Rows> = stages.iter().map(|(n, r)| (n.as_str(), r)).collect();
    let cu = params.max_privacy_unit_groups as usize;
    let case = || {
        json!({"catalog": w.cat.to_json(60), "query": kq.sql, "rendered": rendered, "dp_parameters": format!("{:?}", params), "noise_mode": mode,
               "result": result.to_json(30),
               "stages": stages.iter().filter(|(n, _)| taus.iter().any(|t| t.node == *n || t.input == *n)).map(|(n, r)| json!([n, r.to_json(30)])).collect::<Vec<_>>()})
    };
    let pu = PrivacyUnit::privacy_unit();
    for t in taus.iter() {
        let tnode = match stage.get(t.node.as_str()) {
            Some(r) => *r,
            None => continue,
        };
        let nnode = match stage.get(t.input.as_str()) {
            Some(r) => *r,
            None => continue,
        };
        // R = input of the noise node, L = input of R
        let rname = nodes.get(&t.input).and_then(|n| n.inputs().first().map(|i| i.name().to_string()));
        let lname = rname.as_ref().and_then(|rn| nodes.get(rn)).and_then(|n| n.inputs().first().map(|i| i.name().to_string()));
        let (rrows, lrows) = match (rname.as_ref().and_then(|n| stage.get(n.as_str())), lname.as_ref().and_then(|n| stage.get(n.as_str()))) {
            (Some(a), Some(b)) => (*a, *b),
            _ => {
                rep.count("stages_not_found(not judged)");
                continue;
            }
        };
        rep.count("threshold_pipelines_observed");
        if std::env::var("QV_DEBUG").is_ok() {
            eprintln!("T={} {:?}\nN={} {:?}\nR={:?} {:?}\nL={:?} {:?}\nresult {:?}", t.node, tnode.columns, t.input, nnode.columns, rname, rrows.columns, lname, lrows.columns, result.columns);
        }
        rep.nontrivial(hash64(&(kq.sql.clone(), mode.to_string(), seed, format!("{:?}", params), w.cat.tables.iter().map(|t| t.rows.len()).collect::<Vec<_>>())));
        // R counts the units per key over a pure projection M of the contribution-limited relation.
        // Read from the IR which column of M is the privacy unit and which are the keys.
        let rrel = rname.as_ref().and_then(|n| nodes.get(n)).cloned();
        let mrel = lname.as_ref().and_then(|n| nodes.get(n)).cloned();
        let mut pu_col: Option<String> = None;
        let mut key_map: Vec<(String, String)> = vec![]; // (field of R, column of M)
        if let Some(Relation::Reduce(red)) = rrel {
            for (f, a) in red.field_aggregates() {
                let c = a.column_name().unwrap_or("").to_string();
                if f.name() == COUNT_DISTINCT_PID {
                    pu_col = Some(c);
                } else {
                    key_map.push((f.name().to_string(), c));
                }
            }
        }
        // the unit column of M must be the tracked privacy unit of its input
        if let (Some(Relation::Map(m)), Some(pc)) = (mrel, pu_col.as_ref()) {
            let is_pu = m.field_exprs().iter().any(|(f, e)| f.name() == pc && matches!(e, qrlew::expr::Expr::Column(c) if c.last().map(|s| s == pu).unwrap_or(false)));
            if !is_pu {
                rep.violation(
                    "C04|count|the counted column is not the privacy unit".to_string(),
                    format!("the key-release count aggregates column {} which is not {}", pc, pu),
                    case(),
                );
                return;
            }
        }
        // (a) contribution limit: each unit in at most Cu (key, unit) pairs
        if let Some(pi) = pu_col.as_ref().and_then(|c| col_idx(lrows, c)) {
            let mut per_unit: HashMap<String, usize> = HashMap::new();
            for r in lrows.rows.iter() {
                *per_unit.entry(r[pi].key()).or_insert(0) += 1;
            }
            rep.add("units_observed_after_limit", per_unit.len() as u64);
            if let Some((u, n)) = per_unit.iter().find(|(_, n)| **n > cu) {
                rep.violation(
                    "C04|contribution-limit|a unit contributes to more groups than max_privacy_unit_groups".to_string(),
                    format!("unit {} appears in {} (key, unit) pairs after the contribution limit, Cu = {}", u, n, cu),
                    case(),
                );
                return;
            }
            // (b) the count per key is at most the number of distinct units among those pairs
            let mut units_per_key: HashMap<String, HashSet<String>> = HashMap::new();
            for r in lrows.rows.iter() {
                let k = key_map.iter().filter_map(|(_, mc)| col_idx(lrows, mc).map(|i| r[i].key())).collect::<Vec<_>>().join("|");
                units_per_key.entry(k).or_default().insert(r[pi].key());
            }
            if let Some(ci) = col_idx(rrows, COUNT_DISTINCT_PID) {
                for r in rrows.rows.iter() {
                    let k = key_map.iter().filter_map(|(rf, _)| col_idx(rrows, rf).map(|j| r[j].key())).collect::<Vec<_>>().join("|");
                    let expect = units_per_key.get(&k).map(|s| s.len()).unwrap_or(0) as f64;
                    let got = r[ci].as_f64().unwrap_or(f64::NAN);
                    rep.count("key_counts_checked");
                    if got > expect + 1e-9 {
                        rep.violation(
                            "C04|count|key count exceeds the number of distinct units holding the key".to_string(),
                            format!("key {}: counted {}, distinct units after limiting {}", k, got, expect),
                            case(),
                        );
                        return;
                    }
                }
            }
        } else {
            rep.count("unit_column_not_identified(contribution limit not judged)");
        }
        // true number of distinct units per private key value, from the base data (independent attribution)
        let base = w.cat.table(kq.table).unwrap();
        let kci = base.col(kq.private_key).unwrap();
        let mut true_units: HashMap<String, HashSet<String>> = HashMap::new();
        for row in base.rows.iter() {
            if let Some(o) = w.owner(kq.table, row) {
                true_units.entry(crate::exec::sqlite::to_sql_key(&row[kci])).or_default().insert(o);
            }
        }
        // (c)/(d) survivors are exactly the keys whose noisy count exceeds tau
        if let (Some(nci), Some(tci)) = (col_idx(nnode, COUNT_DISTINCT_PID), col_idx(tnode, COUNT_DISTINCT_PID).or(Some(usize::MAX))) {
            let _ = tci;
            let key_names: Vec<&String> = tnode.columns.iter().filter(|c| *c != COUNT_DISTINCT_PID).collect();
            let keyf = |rows: &Rows, r: &Vec<V>| key_names.iter().filter_map(|k| col_idx(rows, k).map(|i| r[i].key())).collect::<Vec<_>>().join("|");
            let survivors: HashSet<String> = tnode.rows.iter().map(|r| keyf(tnode, r)).collect();
            for r in nnode.rows.iter() {
                let noisy = r[nci].as_f64().unwrap_or(f64::NAN);
                let k = keyf(nnode, r);
                rep.count("noisy_counts_checked");
                let should = noisy > t.tau;
                if survivors.contains(&k) != should {
                    rep.violation(
                        if should { "C04|filter|key above tau dropped".to_string() } else { "C04|filter|key not above tau released".to_string() },
                        format!("key {}: noisy count {} vs tau {}; released: {}", k, noisy, t.tau, survivors.contains(&k)),
                        case(),
                    );
                    return;
                }
            }
            // (g) under zero noise a key held by a single unit is never released
            if mode == "zero" {
                if let Some(k0) = key_names.first() {
                    if let Some(i) = col_idx(tnode, k0) {
                        for r in tnode.rows.iter() {
                            let held_by = true_units.get(&r[i].key()).map(|s| s.len()).unwrap_or(0);
                            rep.count("released_keys_checked_against_base_data");
                            if held_by <= 1 {
                                rep.violation(
                                    "C04|release|key held by at most one unit released with zero noise".to_string(),
                                    format!("key {} is held by {} privacy unit(s) in the base data and is released deterministically", r[i].render(), held_by),
                                    case(),
                                );
                                return;
                            }
                        }
                    }
                }
            }
            // (e) every private key value in the final output survived the filter
            if let (Some(ri), Some(ti)) = (col_idx(&result, "k0"), key_names.first().and_then(|k| col_idx(tnode, k))) {
                let released: HashSet<String> = tnode.rows.iter().map(|r| r[ti].key()).collect();
                for r in result.rows.iter() {
                    rep.count("output_keys_checked");
                    if !r[ri].is_null() && !released.contains(&r[ri].key()) {
                        rep.violation(
                            "C04|output|key in the result that did not pass the threshold".to_string(),
                            format!("key {} is in the final result but not among the {} keys that passed the threshold", r[ri].render(), released.len()),
                            case(),
                        );
                        return;
                    }
                }
            }
        }
        // (f) the threshold is at least the tau required by the share reserved for key release
        let eps_t = params.epsilon * params.tau_thresholding_share;
        let delta_t = params.delta * params.tau_thresholding_share;
        let sigma = noises.iter().find(|n| n.node == t.input).and_then(|n| n.columns.iter().find(|(c, _)| c == COUNT_DISTINCT_PID)).map(|(_, s)| *s).unwrap_or(0.0);
        let sigma_req = (cu as f64).sqrt() * gaussian_multiplier(eps_t, delta_t);
        let tau_req = tau_reference(sigma_req, delta_t, cu as f64);
        if !(sigma > 0.0) || sigma < sigma_req * (1.0 - 1e-9) || t.tau < tau_req * (1.0 - 1e-6) - 1e-9 {
            rep.violation(
                "C04|calibration|threshold or count noise below what the key-release share requires".to_string(),
                format!("sigma {} (required {}), tau {} (required {}) for (eps, delta) = ({}, {}), Cu = {}", sigma, sigma_req, t.tau, tau_req, eps_t, delta_t, cu),
                case(),
            );
            return;
        }
    }
    rep.sample(|| json!({"query": kq.sql, "mode": mode, "taus": taus.iter().map(|t| t.tau).collect::<Vec<_>>(), "released_rows": result.rows.len(),
        "dp_parameters": format!("{:?}", params)}));
}

pub fn run(p: &Params) -> Report {
    let mut rep = Report::for_params("C04", p);
    let pp = p.clone();
    drive(
        p.cases,
        &mut rep,
        &|i, rep| {
            let mut r = pp.rng(i);
            let opts = DpWorldOptions {
                n_users: 4 + r.usize(14),
                max_orders_per_user: 1 + r.usize(5),
                max_items_per_order: 2,
                n_events: 3,
                dangling: r.bool(),
                nullable: true,
            };
            let mut w = gen_dp_world(&mut r, &opts);
            // private city: force the free-text declaration
            {
                let users = w.cat.table_mut("users").unwrap();
                let ci = users.col("city").unwrap();
                users.cols[ci].ty = qrlew::data_type::DataType::text_interval("A".to_string(), "z".to_string());
                for row in users.rows.iter_mut() {
                    // a few shared cities, some singletons
                    row[ci] = if r.chance(2, 3) {
                        qrlew::data_type::value::Value::text(r.pick(CITIES).to_string())
                    } else {
                        qrlew::data_type::value::Value::text(format!("V{}", r.below(40)))
                    };
                }
            }
            {
                // the same for visits.city
                let visits = w.cat.table_mut("visits").unwrap();
                let ci = visits.col("city").unwrap();
                visits.cols[ci].ty = qrlew::data_type::DataType::text_interval("A".to_string(), "z".to_string());
                for row in visits.rows.iter_mut() {
                    row[ci] = if r.chance(2, 3) {
                        qrlew::data_type::value::Value::text(r.pick(CITIES).to_string())
                    } else {
                        qrlew::data_type::value::Value::text(format!("V{}", r.below(40)))
                    };
                }
            }
            for k in 0..3 {
                let mut kq = gen_key_query(&mut r);
                if r.chance(1, 4) {
                    // the grouped aggregation under several plain projection layers
                    kq.sql = format!("SELECT * FROM (SELECT * FROM (SELECT * FROM ({}) AS a) AS b) AS c", kq.sql);
                }
                // large epsilon => tau close to 1: keys held by >= 2 units are really released on small data
                let eps = *r.pick(&[1.0, 20.0, 100.0, 400.0]);
                let delta = *r.pick(&[1e-6, 1e-3, 0.05]);
                let params = DpParameters::new(eps, delta, *r.pick(&[0.2, 0.5, 0.8]), 100.0, 1.0, *r.pick(&[1u64, 2, 3, 5]));
                let mode = ["zero", "prng", "const"][k % 3];
                check(&kq, &w, &params, mode, r.next(), rep);
            }
        },
        &|i, pi, rep| {
            rep.count("harness_level_panics");
            if rep.notes.len() < 8 {
                rep.notes.push(format!("panic in case {}: {} at {}", i, pi.message, pi.location));
            }
        },
    );
    rep
}
