//! C15 — name resolution: exact or unique-suffix match, never an arbitrary candidate.
use crate::util::*;
use qrlew::builder::{Ready, With};
use qrlew::data_type::{DataType, DataTyped};
use qrlew::hierarchy::Hierarchy;
use qrlew::relation::{Relation, Variant as _};
use serde_json::json;
use std::collections::BTreeMap;
use std::sync::Arc;

type Path = Vec<String>;

/// The reference model (exact, else the unique entry agreeing on all common trailing components)
fn model<'a>(entries: &'a BTreeMap<Path, u32>, path: &[String]) -> Option<(&'a Path, u32)> {
    if let Some((k, v)) = entries.get_key_value(path) {
        return Some((k, *v));
    }
    let mut found: Option<(&Path, u32)> = None;
    let mut n = 0;
    for (k, v) in entries.iter() {
        let common = k.len().min(path.len());
        let agree = (0..common).all(|i| k[k.len() - 1 - i] == path[path.len() - 1 - i]);
        if agree {
            n += 1;
            found = Some((k, *v));
        }
    }
    if n == 1 {
        found
    } else {
        None
    }
}

fn check_lookup(entries: &BTreeMap<Path, u32>, h: &Hierarchy<u32>, path: &Path, rep: &mut Report, kind: &str) {
    rep.eval();
    let expect = model(entries, path);
    let got_kv = h.get_key_value(path);
    let got = h.get(path);
    let exact = entries.contains_key(path);
    let ncand = entries
        .keys()
        .filter(|k| {
            let c = k.len().min(path.len());
            (0..c).all(|i| k[k.len() - 1 - i] == path[path.len() - 1 - i])
        })
        .count();
    rep.count(if exact {
        "lookup:exact"
    } else if ncand == 1 {
        "lookup:unique-suffix"
    } else if ncand == 0 {
        "lookup:no-candidate"
    } else {
        "lookup:ambiguous"
    });
    let case = || {
        json!({"entries": entries.iter().map(|(k, v)| json!([k.join("."), v])).collect::<Vec<_>>(),
               "lookup": path.join("."), "expected": expect.map(|(k, v)| json!([k.join("."), v])),
               "got": got_kv.map(|(k, v)| json!([k.join("."), v]))})
    };
    let class = if exact {
        "exact"
    } else if ncand > 1 {
        "ambiguous"
    } else if ncand == 1 {
        "unique-suffix"
    } else {
        "no-candidate"
    };
    match (expect, got_kv) {
        (None, None) => {}
        (Some((k, v)), Some((gk, gv))) => {
            if k.as_slice() != gk || v != *gv {
                rep.violation(
                    format!("C15|hierarchy|{}|wrong-entry|{}", kind, class),
                    format!("lookup {:?} resolved to {:?} instead of {:?}", path, gk, k),
                    case(),
                );
            }
        }
        (None, Some((gk, _))) => rep.violation(
            format!("C15|hierarchy|{}|resolved-but-should-not|{}", kind, class),
            format!("lookup {:?} resolved to {:?} although {} entries are candidates", path, gk, ncand),
            case(),
        ),
        (Some((k, _)), None) => rep.violation(
            format!("C15|hierarchy|{}|missed|{}", kind, class),
            format!("lookup {:?} found nothing, expected {:?}", path, k),
            case(),
        ),
    }
    // get and get_key_value agree
    if got.copied() != got_kv.map(|(_, v)| *v) {
        rep.violation(
            format!("C15|hierarchy|{}|get-vs-get_key_value", kind),
            "get and get_key_value disagree".to_string(),
            case(),
        );
    }
    // Index panics exactly when get is None
    let idx = guarded(|| h[path.clone()]);
    match (idx, got) {
        (Ok(v), Some(g)) if v == *g => {}
        (Err(_), None) => {}
        (i, g) => rep.violation(
            format!("C15|hierarchy|{}|index", kind),
            format!("Index gives {:?} while get gives {:?}", i.ok(), g),
            case(),
        ),
    }
}

fn all_paths(symbols: &[&str], max_len: usize) -> Vec<Path> {
    let mut out: Vec<Path> = vec![vec![]];
    let mut frontier: Vec<Path> = vec![vec![]];
    for _ in 0..max_len {
        let mut next = vec![];
        for p in frontier.iter() {
            for s in symbols {
                let mut q = p.clone();
                q.push(s.to_string());
                next.push(q);
            }
        }
        out.extend(next.iter().cloned());
        frontier = next;
    }
    out
}

/// Exhaustive small scope: all maps of <= 3 entries over 2 symbols and depth <= 3 x all paths of depth <= 4
fn exhaustive(rep: &mut Report, shard: u64, shards: u64) {
    let keys: Vec<Path> = all_paths(&["a", "b"], 3).into_iter().filter(|p| !p.is_empty()).collect(); // 14 keys
    let lookups = all_paths(&["a", "b"], 4); // 31 paths incl. empty
    let n = keys.len();
    let mut idx = 0u64;
    let mut maps = 0u64;
    let mut run = |subset: Vec<usize>, rep: &mut Report| {
        idx += 1;
        if idx % shards != shard {
            return;
        }
        maps += 1;
        let entries: BTreeMap<Path, u32> = subset.iter().enumerate().map(|(i, k)| (keys[*k].clone(), i as u32 + 1)).collect();
        let h: Hierarchy<u32> = entries.iter().map(|(k, v)| (k.clone(), *v)).collect();
        for p in lookups.iter() {
            check_lookup(&entries, &h, p, rep, "exhaustive");
        }
        rep.nontrivial(hash64(&entries));
    };
    for a in 0..n {
        run(vec![a], rep);
        for b in a + 1..n {
            run(vec![a, b], rep);
            for c in b + 1..n {
                run(vec![a, b, c], rep);
            }
        }
    }
    rep.add("exhaustive_maps", maps);
}

fn random_case(i: u64, p: &Params, rep: &mut Report) {
    let mut r = p.rng(i);
    let alphabet = ["t", "u", "v", "a", "b", "T", "a b", "a.b", ""];
    let nsym = 2 + r.usize(3);
    let n = 1 + r.usize(12);
    let mut entries: BTreeMap<Path, u32> = BTreeMap::new();
    let mut order: Vec<(Path, u32)> = vec![];
    for k in 0..n {
        let len = 1 + r.usize(4);
        let path: Path = (0..len)
            .map(|_| {
                let extra = if r.chance(1, 10) { 4 } else { 0 };
                alphabet[r.usize(nsym + extra)].to_string()
            })
            .collect();
        // keys that are suffixes / extensions of existing ones
        let path = if !order.is_empty() && r.chance(1, 3) {
            let (base, _) = &order[r.usize(order.len())];
            if r.bool() && base.len() > 1 {
                base[1..].to_vec()
            } else {
                let mut q = vec![alphabet[r.usize(nsym)].to_string()];
                q.extend(base.iter().cloned());
                q
            }
        } else {
            path
        };
        if !entries.contains_key(&path) {
            entries.insert(path.clone(), k as u32);
            order.push((path, k as u32));
        }
    }
    // insertion order must not matter
    r.shuffle(&mut order);
    let h: Hierarchy<u32> = order.iter().cloned().collect();
    let mut lookups: Vec<Path> = vec![vec![]];
    for (k, _) in order.iter() {
        lookups.push(k.clone());
        for s in 1..k.len() {
            lookups.push(k[s..].to_vec());
        }
        let mut longer = vec![alphabet[r.usize(nsym)].to_string()];
        longer.extend(k.iter().cloned());
        lookups.push(longer);
        let mut wrong = k.clone();
        let l = wrong.len();
        wrong[l - 1] = alphabet[r.usize(nsym)].to_string();
        lookups.push(wrong);
    }
    for p in lookups.iter() {
        check_lookup(&entries, &h, p, rep, "random");
    }
    rep.nontrivial(hash64(&entries));
    rep.sample(|| json!({"entries": entries.keys().map(|k| k.join(".")).collect::<Vec<_>>(), "lookups": lookups.len()}));
}

// ---------------------------------------------------------------------- SQL level

fn table(name: &str, cols: &[&str]) -> Relation {
    let schema: qrlew::relation::Schema = cols
        .iter()
        .map(|c| qrlew::relation::Field::new(c.to_string(), DataType::integer_interval(0, 100), None))
        .collect();
    Relation::table().name(name).path([name]).schema(schema).size(10).build()
}

fn sql_case(i: u64, p: &Params, rep: &mut Report) {
    let mut r = p.rng(i ^ 0x515_0000_0000);
    // two tables sharing some column names
    let pool = ["id", "a", "b", "c", "d"];
    let mut c1: Vec<&str> = vec!["id"];
    let mut c2: Vec<&str> = vec!["id"];
    for c in &pool[1..] {
        match r.below(4) {
            0 => c1.push(c),
            1 => c2.push(c),
            2 => {
                c1.push(c);
                c2.push(c)
            }
            _ => {}
        }
    }
    let t1 = table("t1", &c1);
    let t2 = table("t2", &c2);
    let relations: Hierarchy<Arc<Relation>> =
        Hierarchy::from([(vec!["t1"], Arc::new(t1)), (vec!["t2"], Arc::new(t2))]);
    let col = *r.pick(&pool);
    let in1 = c1.contains(&col);
    let in2 = c2.contains(&col);
    let (a1, a2) = if r.bool() { ("t1", "t2") } else { ("x", "y") };
    let alias = |t: &str, a: &str| if a == t { t.to_string() } else { format!("{} AS {}", t, a) };
    let kind = r.below(5);
    let (from, merged): (String, bool) = match kind {
        0 => (format!("{} JOIN {} ON {}.id = {}.id", alias("t1", a1), alias("t2", a2), a1, a2), false),
        1 => (format!("{} LEFT JOIN {} ON {}.id = {}.id", alias("t1", a1), alias("t2", a2), a1, a2), false),
        2 => (format!("{} CROSS JOIN {}", alias("t1", a1), alias("t2", a2)), false),
        3 => (format!("{} JOIN {} USING (id)", alias("t1", a1), alias("t2", a2)), col == "id"),
        _ => (format!("{} NATURAL JOIN {}", alias("t1", a1), alias("t2", a2)), in1 && in2),
    };
    let place = r.below(8);
    let query = match place {
        // unqualified name in the ON clause of the join itself
        7 => format!("SELECT {}.id FROM {} JOIN {} ON {} > 3", a1, alias("t1", a1), alias("t2", a2), col),
        // the shared name used outside a derived table / CTE that selects * from the join
        5 => format!("SELECT {} FROM (SELECT * FROM {}) AS s", col, from),
        6 => format!("WITH s AS (SELECT * FROM {}) SELECT {} FROM s", from, col),
        0 => format!("SELECT {} FROM {}", col, from),
        1 => {
            // predicates of several shapes: the range filter only inspects some of them
            let pred = match r.below(7) {
                0 => format!("{} > 3", col),
                1 => format!("{} <> 3", col),
                2 => format!("{} IS NOT NULL", col),
                3 => format!("({} + 1) = 2", col),
                4 => format!("{} IN (1, 2)", col),
                5 => format!("NOT ({} < 3)", col),
                _ => format!("{}.id > 1 AND ABS({}) >= 2", a1, col),
            };
            format!("SELECT {}.id FROM {} WHERE {}", a1, from, pred)
        }
        2 => format!("SELECT count(*) AS n FROM {} GROUP BY {}", from, col),
        3 => format!("SELECT {}.id FROM {} ORDER BY {}", a1, from, col),
        _ => format!("SELECT count(*) AS n, SUM({}) AS s FROM {}", col, from),
    };
    let res = guarded(|| {
        let q = qrlew::sql::parse(&query).map_err(|e| e.to_string())?;
        Relation::try_from(q.with(&relations)).map_err(|e| e.to_string())
    });
    rep.eval();
    let (kind, merged) = if place == 7 { (0, false) } else { (kind, merged) };
    // ORDER BY first resolves against the output names: `SELECT t1.id ... ORDER BY id` is the output column
    let output_name = place == 3 && col == "id";
    let expectation = if output_name {
        "resolvable"
    } else if !in1 && !in2 {
        "unknown column"
    } else if in1 && in2 && !merged {
        "ambiguous"
    } else {
        "resolvable"
    };
    rep.count(&format!("sql:{}", expectation));
    rep.nontrivial(hash64(&(query.clone(), c1.clone(), c2.clone())));
    let kinds = ["inner-on", "left-on", "cross", "using", "natural"];
    let case = json!({"t1": c1, "t2": c2, "query": query, "expectation": expectation});
    match (expectation, &res) {
        ("ambiguous", Ok(Ok(rel))) => {
            rep.violation(
                format!("C15|sql|ambiguous-column-accepted|{}|{}", kinds[kind as usize], ["select", "where", "group-by", "order-by", "aggregate", "star-in-derived-table", "star-in-cte", "join-on"][place as usize]),
                format!("`{}` names a column present in both joined tables, yet the query is accepted: {}", col, rel.schema()),
                case,
            );
        }
        ("unknown column", Ok(Ok(_))) => {
            rep.violation(
                if place >= 3 {
                    format!("C15|sql|unknown-column-accepted|{}|{}", kinds[kind as usize], ["select", "where", "group-by", "order-by", "aggregate", "star-in-derived-table", "star-in-cte", "join-on"][place as usize])
                } else {
                    format!("C15|sql|unknown-column-accepted|{}", kinds[kind as usize])
                },
                format!("`{}` is in neither table, yet the query is accepted", col),
                case,
            );
        }
        ("resolvable", Ok(Err(e))) => {
            // refusing a resolvable name is not an arbitrary binding; count only
            rep.count("sql:resolvable-refused");
            if rep.notes.len() < 3 {
                rep.notes.push(format!("resolvable but refused: {} -> {}", query, e.lines().next().unwrap_or("")));
            }
        }
        (_, Err(pi)) => {
            rep.count("sql:panics");
            if rep.notes.len() < 6 {
                rep.notes.push(format!("panic on {}: {} at {}", query, pi.message, pi.location));
            }
        }
        _ => {}
    }
    rep.sample(|| json!({"t1": c1, "t2": c2, "query": query, "expectation": expectation,
        "outcome": match &res { Ok(Ok(_)) => "accepted".to_string(), Ok(Err(e)) => format!("error: {}", e.lines().next().unwrap_or("")), Err(p) => format!("panic: {}", p.message) }}));
}

/// A CTE named like a base table is the one in scope
fn cte_shadow_case(i: u64, p: &Params, rep: &mut Report) {
    use qrlew::data_type::Variant as _;
    let mut r = p.rng(i ^ 0x5AD0_0000_0000);
    let schema = |cols: &[(&str, DataType)]| -> qrlew::relation::Schema { cols.iter().map(|(c, t)| qrlew::relation::Field::new(c.to_string(), t.clone(), None)).collect() };
    let t1: Relation = Relation::table().name("t1").path(["t1"]).schema(schema(&[("id", DataType::integer_interval(0, 100)), ("a", DataType::integer_interval(0, 10))])).size(10).build();
    let t2: Relation = Relation::table().name("t2").path(["t2"]).schema(schema(&[("id", DataType::integer_interval(0, 100)), ("c", DataType::float_interval(20.0, 30.0))])).size(10).build();
    let qualified = r.bool();
    let relations: Hierarchy<Arc<Relation>> = if qualified {
        Hierarchy::from([(vec!["sch", "t1"], Arc::new(t1)), (vec!["sch", "t2"], Arc::new(t2))])
    } else {
        Hierarchy::from([(vec!["t1"], Arc::new(t1)), (vec!["t2"], Arc::new(t2))])
    };
    let float_expected = DataType::float_interval(20.0, 30.0);
    let int_expected = DataType::integer_interval(0, 10);
    let (query, expected, kind) = match r.below(6) {
        0 => ("WITH t1 AS (SELECT c AS a FROM t2) SELECT a FROM t1".to_string(), float_expected, "the base table is read instead of the CTE of the same name"),
        1 => ("WITH t1 AS (SELECT c AS a, id FROM t2 WHERE c > 21) SELECT a, id FROM t1 WHERE a > 22".to_string(), float_expected, "the base table is read instead of the CTE of the same name"),
        2 => ("WITH t2 AS (SELECT a AS c FROM t1) SELECT x.c FROM t2 AS x".to_string(), int_expected, "the base table is read instead of the CTE of the same name"),
        // the same CTE name at two nesting levels: the innermost definition is the one in scope
        3 => ("WITH v AS (SELECT a FROM t1) SELECT * FROM (WITH v AS (SELECT c AS a FROM t2) SELECT a FROM v) AS s".to_string(), float_expected, "an outer CTE is read instead of the inner CTE of the same name"),
        4 => ("WITH w AS (WITH v AS (SELECT c AS a FROM t2) SELECT a FROM v), v AS (SELECT a FROM t1) SELECT a FROM w".to_string(), float_expected, "an outer CTE is read instead of the inner CTE of the same name"),
        _ => ("WITH v AS (SELECT c AS a FROM t2) SELECT s.a FROM (WITH v AS (SELECT a FROM t1) SELECT a FROM v) AS s".to_string(), int_expected, "an outer CTE is read instead of the inner CTE of the same name"),
    };
    let res = guarded(|| {
        let q = qrlew::sql::parse(&query).map_err(|e| e.to_string())?;
        Relation::try_from(q.with(&relations)).map_err(|e| e.to_string())
    });
    rep.eval();
    rep.count("sql:cte-shadows-table");
    rep.nontrivial(hash64(&(query.clone(), qualified)));
    if let Ok(Ok(rel)) = &res {
        let f = &rel.schema()[0];
        if !f.data_type().is_subset_of(&expected) {
            rep.violation(
                format!("C15|sql|cte-shadowing|{}|{}", kind, if qualified { "qualified paths" } else { "one-component paths" }),
                format!("{}: column {} has type {} (the CTE's column has type {})", query, f.name(), f.data_type(), expected),
                json!({"query": query, "tables": {"t1": ["id int[0 100]", "a int[0 10]"], "t2": ["id int[0 100]", "c float[20 30]"]}, "registered_under": if qualified { "sch.t1, sch.t2" } else { "t1, t2" }}),
            );
        }
    } else {
        rep.count("sql:cte-shadows-table:refused-or-panic");
    }
}

/// A column reached through the qualifier of the table that does not have it; two tables of the same
/// name in two schemas joined without aliases
fn qualifier_case(i: u64, p: &Params, rep: &mut Report) {
    use qrlew::data_type::Variant as _;
    let mut r = p.rng(i ^ 0x0A11_0000_0000);
    let schema = |cols: &[(&str, DataType)]| -> qrlew::relation::Schema { cols.iter().map(|(c, t)| qrlew::relation::Field::new(c.to_string(), t.clone(), None)).collect() };
    let low = DataType::integer_interval(0, 10);
    let high = DataType::integer_interval(100, 200);
    if r.bool() {
        // t(id, a, b) and u(id, a, c): `u.b` and `t.c` name nothing
        let t: Relation = Relation::table().name("t").path(["t"]).schema(schema(&[("id", low.clone()), ("a", low.clone()), ("b", high.clone())])).size(10).build();
        let u: Relation = Relation::table().name("u").path(["u"]).schema(schema(&[("id", low.clone()), ("a", high.clone()), ("c", low.clone())])).size(10).build();
        let relations: Hierarchy<Arc<Relation>> = Hierarchy::from([(vec!["t"], Arc::new(t)), (vec!["u"], Arc::new(u))]);
        let (from, wrong) = match r.below(4) {
            0 => ("t JOIN u ON t.id = u.id", "u.b"),
            1 => ("t JOIN u ON t.id = u.id", "t.c"),
            2 => ("t AS x JOIN u AS y ON x.id = y.id", "y.b"),
            _ => ("t LEFT JOIN u ON t.id = u.id", "t.c"),
        };
        let query = match r.below(3) {
            0 => format!("SELECT {} AS x FROM {}", wrong, from),
            1 => format!("SELECT t.id FROM {} WHERE {} > 3", from.replace(" AS x", "").replace(" AS y", "").replace("x.", "t.").replace("y.", "u."), wrong.replace("y.", "u.")),
            _ => format!("SELECT COUNT(*) AS n FROM {} GROUP BY {}", from, wrong),
        };
        let res = guarded(|| {
            let q = qrlew::sql::parse(&query).map_err(|e| e.to_string())?;
            Relation::try_from(q.with(&relations)).map_err(|e| e.to_string())
        });
        rep.eval();
        rep.count("sql:wrong-qualifier");
        rep.nontrivial(hash64(&query));
        if let Ok(Ok(rel)) = &res {
            rep.violation(
                "C15|sql|wrong-qualifier-accepted".to_string(),
                format!("{}: `{}` names no column (the qualified table has none of that name), yet the query is accepted: {}", query, wrong, rel.schema()),
                json!({"query": query, "tables": {"t": ["id", "a", "b"], "u": ["id", "a", "c"]}}),
            );
        }
    } else {
        let t1: Relation = Relation::table().name("s1_t").path(["s1", "t"]).schema(schema(&[("id", low.clone()), ("a", low.clone()), ("b", low.clone())])).size(10).build();
        let t2: Relation = Relation::table().name("s2_t").path(["s2", "t"]).schema(schema(&[("id", low.clone()), ("a", high.clone()), ("c", low.clone())])).size(10).build();
        let relations: Hierarchy<Arc<Relation>> = Hierarchy::from([(vec!["s1", "t"], Arc::new(t1)), (vec!["s2", "t"], Arc::new(t2))]);
        let (query, expected): (&str, Option<DataType>) = match r.below(4) {
            0 => ("SELECT s1.t.a AS x FROM s1.t JOIN s2.t ON s1.t.id = s2.t.id", Some(low.clone())),
            1 => ("SELECT s2.t.a AS x FROM s1.t JOIN s2.t ON s1.t.id = s2.t.id", Some(high.clone())),
            2 => ("SELECT a AS x FROM s1.t JOIN s2.t ON s1.t.id = s2.t.id", None),
            _ => ("SELECT s1.t.b AS x FROM s1.t JOIN s2.t ON s1.t.id = s2.t.id", Some(low.clone())),
        };
        let res = guarded(|| {
            let q = qrlew::sql::parse(query).map_err(|e| e.to_string())?;
            Relation::try_from(q.with(&relations)).map_err(|e| e.to_string())
        });
        rep.eval();
        rep.count("sql:homonymous-tables");
        rep.nontrivial(hash64(&query));
        if let Ok(Ok(rel)) = &res {
            let got = rel.schema()[0].data_type();
            let wrong = match &expected {
                Some(t) => !got.is_subset_of(t),
                None => true,
            };
            if wrong {
                rep.violation(
                    "C15|sql|homonymous-tables-of-two-schemas|wrong or arbitrary binding".to_string(),
                    format!("{}: x has type {} ({})", query, got, expected.map_or("the unqualified name is ambiguous and must be refused".to_string(), |t| format!("the named column has type {}", t))),
                    json!({"query": query, "tables": {"s1.t": ["id int[0 10]", "a int[0 10]", "b"], "s2.t": ["id int[0 10]", "a int[100 200]", "c"]}}),
                );
            }
        }
    }
}

/// The same table twice in a FROM clause without aliases: every reference to it is ambiguous
fn self_join_case(i: u64, p: &Params, rep: &mut Report) {
    let mut r = p.rng(i ^ 0x5E1F_0000_0000);
    let t1 = table("t1", &["id", "a"]);
    let relations: Hierarchy<Arc<Relation>> = Hierarchy::from([(vec!["t1"], Arc::new(t1))]);
    let query = match r.below(3) {
        0 => "SELECT t1.id FROM t1 JOIN t1 ON t1.id = t1.id",
        1 => "SELECT t1.a FROM t1 CROSS JOIN t1",
        _ => "SELECT id FROM t1 JOIN t1 ON t1.id = t1.a",
    };
    let res = guarded(|| {
        let q = qrlew::sql::parse(query).map_err(|e| e.to_string())?;
        Relation::try_from(q.with(&relations)).map_err(|e| e.to_string())
    });
    rep.eval();
    rep.count("sql:self-join-without-alias");
    rep.nontrivial(hash64(&query));
    if let Ok(Ok(rel)) = &res {
        rep.violation(
            "C15|sql|self-join-without-alias-accepted".to_string(),
            format!("{} is accepted although every `t1` names two relations: {}", query, rel.schema()),
            json!({"query": query, "relation": rel.to_string()}),
        );
    }
}

pub fn run(p: &Params) -> Report {
    let mut rep = Report::for_params("C15", p);
    let pp = p.clone();
    if !pp.flag("skip_exhaustive") {
        let (sh, n) = (pp.shard, pp.shards.max(1));
        let r = guarded(|| {
            let mut local = Report::for_params("C15", &pp);
            exhaustive(&mut local, sh, n);
            local
        });
        if let Ok(local) = r {
            rep.evaluations += local.evaluations;
            for (k, v) in local.counters {
                rep.add(&k, v);
            }
            rep.distinct.extend(local.distinct);
            rep.violations.extend(local.violations);
        }
    }
    drive(
        p.cases,
        &mut rep,
        &|i, rep| {
            if i % 60 == 17 {
                qualifier_case(i, &pp, rep)
            } else if i % 300 == 59 {
                self_join_case(i, &pp, rep)
            } else if i % 30 == 29 {
                cte_shadow_case(i, &pp, rep)
            } else if i % 3 == 2 {
                sql_case(i, &pp, rep)
            } else {
                random_case(i, &pp, rep)
            }
        },
        &|i, pi, rep| {
            rep.count("harness_level_panics");
            if rep.notes.len() < 5 {
                rep.notes.push(format!("panic in case {}: {} at {}", i, pi.message, pi.location));
            }
        },
    );
    rep
}
