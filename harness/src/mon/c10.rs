//! C10 — WHERE / ON narrowing never drops a row that satisfies the predicate.
use crate::gen::types::*;
use crate::oracle::member::{cmp_num, member, member_premise, num_of, Num};
use crate::util::*;
use qrlew::builder::{Ready, With};
use qrlew::data_type::value::Value;
use qrlew::data_type::{self as dt, DataType, DataTyped};
use qrlew::expr::Expr;
use qrlew::relation::{Join, Relation, Variant as _};
use serde_json::json;
use std::cmp::Ordering;

/// The harness's own predicate language, evaluated with SQL three-valued logic
#[derive(Clone, Debug)]
pub enum P {
    Cmp(&'static str, Operand, Operand),
    In(String, Vec<Value>),
    And(Box<P>, Box<P>),
    Or(Box<P>, Box<P>),
    Not(Box<P>),
    IsNull(String),
    /// a sub-term the narrowing does not understand (function of a column compared to a literal)
    Opaque(&'static str, String, Value),
    Lit(bool),
    /// a boolean column used as a predicate
    BoolCol(String),
}

#[derive(Clone, Debug)]
pub enum Operand {
    Col(String),
    Lit(Value),
}

fn col_expr(prefix: Option<&str>, c: &str) -> Expr {
    match prefix {
        None => Expr::col(c),
        Some(_) => {
            // qualified names like _LEFT_.a are written "side.col" in the harness
            let (side, name) = c.split_once('.').unwrap();
            Expr::qcol(side.to_string(), name.to_string())
        }
    }
}

impl P {
    pub fn to_expr(&self, q: Option<&str>) -> Expr {
        let op = |o: &Operand| match o {
            Operand::Col(c) => col_expr(q, c),
            Operand::Lit(v) => Expr::val(v.clone()),
        };
        match self {
            P::Cmp(name, l, r) => {
                let (l, r) = (op(l), op(r));
                match *name {
                    ">" => Expr::gt(l, r),
                    ">=" => Expr::gt_eq(l, r),
                    "<" => Expr::lt(l, r),
                    "<=" => Expr::lt_eq(l, r),
                    "=" => Expr::eq(l, r),
                    _ => Expr::not_eq(l, r),
                }
            }
            P::In(c, vs) => Expr::in_list(col_expr(q, c), Expr::list(vs.clone())),
            P::And(a, b) => Expr::and(a.to_expr(q), b.to_expr(q)),
            P::Or(a, b) => Expr::or(a.to_expr(q), b.to_expr(q)),
            P::Not(a) => Expr::not(a.to_expr(q)),
            P::IsNull(c) => Expr::is_null(col_expr(q, c)),
            P::Opaque(f, c, v) => {
                let inner = match *f {
                    "abs" => Expr::abs(col_expr(q, c)),
                    "opposite" => Expr::opposite(col_expr(q, c)),
                    _ => Expr::char_length(col_expr(q, c)),
                };
                Expr::gt(inner, Expr::val(v.clone()))
            }
            P::Lit(b) => Expr::val(*b),
            P::BoolCol(c) => col_expr(q, c),
        }
    }
}

fn strip_opt(v: &Value) -> Option<&Value> {
    match v {
        Value::Optional(o) => o.as_deref(),
        Value::Unit(_) => None,
        v => Some(v),
    }
}

fn cmp_values(a: &Value, b: &Value) -> Option<Ordering> {
    match (num_of(a), num_of(b)) {
        (Some(x), Some(y)) => {
            // beyond 2^53 the exact and the rounded comparison may differ: undecided
            let big = |n: Num| match n {
                Num::I(i) => i.unsigned_abs() > (1u64 << 53),
                Num::F(f) => f.abs() > 9.0e15,
            };
            if big(x) || big(y) {
                if matches!((x, y), (Num::I(_), Num::I(_))) || matches!((x, y), (Num::F(_), Num::F(_))) {
                    cmp_num(x, y)
                } else {
                    None
                }
            } else {
                cmp_num(x, y)
            }
        }
        _ => match (a, b) {
            (Value::Text(x), Value::Text(y)) => Some(x.as_str().cmp(y.as_str())),
            (Value::Date(x), Value::Date(y)) => Some((**x).cmp(&**y)),
            (Value::DateTime(x), Value::DateTime(y)) => Some((**x).cmp(&**y)),
            // a date is the instant at midnight of that day
            (Value::Date(x), Value::DateTime(y)) => Some(x.and_hms_opt(0, 0, 0)?.cmp(&**y)),
            (Value::DateTime(x), Value::Date(y)) => Some((**x).cmp(&y.and_hms_opt(0, 0, 0)?)),
            (Value::Time(x), Value::Time(y)) => Some((**x).cmp(&**y)),
            _ => None,
        },
    }
}

/// Some(Some(b)) = definite truth value, Some(None) = SQL NULL, None = the harness cannot decide
fn eval(p: &P, row: &[(String, Value)]) -> Option<Option<bool>> {
    let get = |c: &str| row.iter().find(|(n, _)| n == c).map(|(_, v)| v);
    let operand = |o: &Operand| -> Option<Option<Value>> {
        match o {
            Operand::Col(c) => Some(strip_opt(get(c)?).cloned()),
            Operand::Lit(v) => Some(strip_opt(v).cloned()),
        }
    };
    match p {
        P::Cmp(name, l, r) => {
            let (l, r) = (operand(l)?, operand(r)?);
            match (l, r) {
                (Some(l), Some(r)) => {
                    let o = cmp_values(&l, &r)?;
                    Some(Some(match *name {
                        ">" => o == Ordering::Greater,
                        ">=" => o != Ordering::Less,
                        "<" => o == Ordering::Less,
                        "<=" => o != Ordering::Greater,
                        "=" => o == Ordering::Equal,
                        _ => o != Ordering::Equal,
                    }))
                }
                _ => Some(None),
            }
        }
        P::In(c, vs) => match strip_opt(get(c)?) {
            None => Some(None),
            Some(v) => {
                let mut any = false;
                for x in vs {
                    if cmp_values(v, x)? == Ordering::Equal {
                        any = true;
                    }
                }
                Some(Some(any))
            }
        },
        P::And(a, b) => {
            let (x, y) = (eval(a, row)?, eval(b, row)?);
            Some(match (x, y) {
                (Some(false), _) | (_, Some(false)) => Some(false),
                (Some(true), Some(true)) => Some(true),
                _ => None,
            })
        }
        P::Or(a, b) => {
            let (x, y) = (eval(a, row)?, eval(b, row)?);
            Some(match (x, y) {
                (Some(true), _) | (_, Some(true)) => Some(true),
                (Some(false), Some(false)) => Some(false),
                _ => None,
            })
        }
        P::Not(a) => Some(eval(a, row)?.map(|b| !b)),
        P::IsNull(c) => Some(Some(strip_opt(get(c)?).is_none())),
        P::Opaque(f, c, v) => match strip_opt(get(c)?) {
            None => Some(None),
            Some(x) => {
                let y = match (*f, x) {
                    ("abs", Value::Integer(i)) => Value::integer(i.checked_abs()?),
                    ("abs", Value::Float(f)) => Value::float(f.abs()),
                    ("opposite", Value::Integer(i)) => Value::integer(i.checked_neg()?),
                    ("opposite", Value::Float(f)) => Value::float(-**f),
                    ("char_length", Value::Text(s)) => Value::integer(s.chars().count() as i64),
                    _ => return None,
                };
                Some(Some(cmp_values(&y, v)? == Ordering::Greater))
            }
        },
        P::Lit(b) => Some(Some(*b)),
        P::BoolCol(c) => match strip_opt(get(c)?) {
            None => Some(None),
            Some(Value::Boolean(b)) => Some(Some(**b)),
            _ => None,
        },
    }
}

struct ColSpec {
    name: String,
    ty: DataType,
}

fn gen_cols(r: &mut Rng, prefix: &str) -> Vec<ColSpec> {
    let opt = |r: &mut Rng, t: DataType| if r.chance(1, 4) { DataType::optional(t) } else { t };
    let int = |r: &mut Rng| {
        // moderate magnitudes most of the time: comparisons near the row values
        if r.chance(3, 4) {
            let a = r.range(-20, 20);
            match r.below(4) {
                0 => dt::Integer::from_interval(a, a + r.range(0, 30)),
                1 => dt::Integer::from_values([a, a + r.range(1, 5), a + r.range(6, 30)]),
                2 => dt::Integer::from_interval(a, a + r.range(0, 5)).union_interval(a + 10, a + r.range(10, 20)),
                _ => dt::Integer::from_min(a),
            }
        } else {
            gen_integer(r)
        }
    };
    let float = |r: &mut Rng| {
        if r.chance(3, 4) {
            let a = r.range(-40, 40) as f64 / 2.0;
            match r.below(3) {
                0 => dt::Float::from_interval(a, a + r.range(0, 30) as f64 / 2.0),
                1 => dt::Float::from_values([a, a + 0.5, a + 7.25]),
                _ => dt::Float::from_max(a),
            }
        } else {
            gen_float(r)
        }
    };
    vec![
        ColSpec { name: format!("{}a", prefix), ty: { let t = DataType::Integer(int(r)); opt(r, t) } },
        ColSpec { name: format!("{}b", prefix), ty: { let t = DataType::Integer(int(r)); opt(r, t) } },
        ColSpec { name: format!("{}x", prefix), ty: { let t = DataType::Float(float(r)); opt(r, t) } },
        ColSpec { name: format!("{}s", prefix), ty: { let t = DataType::Text(gen_text(r)); opt(r, t) } },
        ColSpec { name: format!("{}f", prefix), ty: { let t = DataType::Boolean(gen_boolean(r)); opt(r, t) } },
        // temporal columns (narrowing goes through greatest / least and the per-variant union / intersection)
        ColSpec { name: format!("{}d", prefix), ty: { let t = DataType::Date(date_ty(r)); opt(r, t) } },
        ColSpec { name: format!("{}e", prefix), ty: { let t = DataType::Date(date_ty(r)); opt(r, t) } },
        ColSpec { name: format!("{}t", prefix), ty: { let t = DataType::DateTime(datetime_ty(r)); opt(r, t) } },
        ColSpec { name: format!("{}u", prefix), ty: { let t = DataType::DateTime(datetime_ty(r)); opt(r, t) } },
        ColSpec { name: format!("{}m", prefix), ty: { let t = DataType::Time(time_ty(r)); opt(r, t) } },
    ]
}

fn base_date(r: &mut Rng) -> chrono::NaiveDate {
    chrono::NaiveDate::from_ymd_opt(2020, 1, 1).unwrap() + chrono::Duration::days(r.range(0, 400))
}

fn date_ty(r: &mut Rng) -> dt::Date {
    let a = base_date(r);
    match r.below(4) {
        0 => dt::Date::from_interval(a, a + chrono::Duration::days(r.range(0, 200))),
        1 => dt::Date::from_values([a, a + chrono::Duration::days(r.range(1, 5)), a + chrono::Duration::days(r.range(6, 60))]),
        2 => dt::Date::from_interval(a, a + chrono::Duration::days(r.range(0, 10))).union_interval(a + chrono::Duration::days(30), a + chrono::Duration::days(r.range(30, 90))),
        _ => dt::Date::from_interval(a - chrono::Duration::days(r.range(0, 700)), a + chrono::Duration::days(r.range(0, 700))),
    }
}

fn datetime_ty(r: &mut Rng) -> dt::DateTime {
    let a = base_date(r).and_hms_opt(r.range(0, 23) as u32, r.range(0, 59) as u32, 0).unwrap();
    match r.below(3) {
        0 => dt::DateTime::from_interval(a, a + chrono::Duration::hours(r.range(0, 5000))),
        1 => dt::DateTime::from_values([a, a + chrono::Duration::seconds(r.range(1, 50)), a + chrono::Duration::hours(r.range(1, 600))]),
        _ => dt::DateTime::from_interval(a, a + chrono::Duration::hours(r.range(0, 100))).union_interval(a + chrono::Duration::hours(500), a + chrono::Duration::hours(r.range(500, 900))),
    }
}

fn time_ty(r: &mut Rng) -> dt::Time {
    let a = chrono::NaiveTime::from_hms_opt(r.range(0, 11) as u32, r.range(0, 59) as u32, 0).unwrap();
    match r.below(2) {
        0 => dt::Time::from_interval(a, a + chrono::Duration::minutes(r.range(0, 600))),
        _ => dt::Time::from_values([a, a + chrono::Duration::minutes(r.range(1, 30)), a + chrono::Duration::minutes(r.range(31, 600))]),
    }
}

fn inner(t: &DataType) -> &DataType {
    match t {
        DataType::Optional(o) => o.data_type(),
        t => t,
    }
}

fn near_literal(r: &mut Rng, t: &DataType) -> Value {
    // a literal close to the column's range (boundaries and just outside)
    match inner(t) {
        DataType::Integer(i) if !i.is_empty() => {
            let [a, b] = i[r.usize(i.len())];
            let base = if r.bool() { a } else { b };
            let v = base.saturating_add(r.range(-2, 2));
            if r.chance(1, 4) {
                Value::float(v as f64 + if r.bool() { 0.5 } else { 0.0 })
            } else {
                Value::integer(v)
            }
        }
        DataType::Float(f) if !f.is_empty() => {
            let [a, b] = f[r.usize(f.len())];
            let base = if r.bool() { a } else { b };
            let v = base + (r.range(-2, 2) as f64) / 2.0;
            if r.chance(1, 4) && v.fract() == 0.0 && v.abs() < 1e15 {
                Value::integer(v as i64)
            } else {
                Value::float(if v.is_finite() { v } else { base })
            }
        }
        DataType::Text(_) => Value::text(text_any(r)),
        DataType::Boolean(_) => Value::boolean(r.bool()),
        DataType::Date(d) if !d.is_empty() => {
            let [a, b] = d[r.usize(d.len())];
            Value::date((if r.bool() { a } else { b }) + chrono::Duration::days(r.range(-2, 2)))
        }
        DataType::DateTime(d) if !d.is_empty() => {
            let [a, b] = d[r.usize(d.len())];
            Value::date_time((if r.bool() { a } else { b }) + chrono::Duration::seconds(r.range(-2, 2) * *r.pick(&[1i64, 3600])))
        }
        DataType::Time(d) if !d.is_empty() => {
            let [a, b] = d[r.usize(d.len())];
            let base = if r.bool() { a } else { b };
            // no wrap-around at midnight
            let shifted = base.overflowing_add_signed(chrono::Duration::minutes(r.range(-2, 2)));
            Value::time(if shifted.1 == 0 { shifted.0 } else { base })
        }
        _ => Value::integer(r.range(-5, 5)),
    }
}

fn gen_pred(r: &mut Rng, cols: &[ColSpec], depth: u32) -> P {
    let numeric: Vec<&ColSpec> = cols
        .iter()
        .filter(|c| matches!(inner(&c.ty), DataType::Integer(_) | DataType::Float(_)))
        .collect();
    if depth > 0 && r.chance(1, 2) {
        return match r.below(5) {
            0 | 1 => P::And(Box::new(gen_pred(r, cols, depth - 1)), Box::new(gen_pred(r, cols, depth - 1))),
            2 | 3 => P::Or(Box::new(gen_pred(r, cols, depth - 1)), Box::new(gen_pred(r, cols, depth - 1))),
            _ => P::Not(Box::new(gen_pred(r, cols, depth - 1))),
        };
    }
    let ops = [">", ">=", "<", "<=", "=", "<>"];
    match r.below(12) {
        0..=3 => {
            // column vs literal (either order)
            let c = r.pick(cols);
            let lit = near_literal(r, &c.ty);
            // a datetime column against a date literal and vice versa
            let lit = match (&lit, r.chance(1, 4)) {
                (Value::DateTime(d), true) => Value::date(d.date()),
                (Value::Date(d), true) => Value::date_time(d.and_hms_opt(0, 0, 0).unwrap() + chrono::Duration::hours(r.range(0, 30))),
                _ => lit,
            };
            let op = *r.pick(&ops);
            if r.bool() {
                P::Cmp(op, Operand::Col(c.name.clone()), Operand::Lit(lit))
            } else {
                P::Cmp(op, Operand::Lit(lit), Operand::Col(c.name.clone()))
            }
        }
        4 | 5 => {
            // column vs column (numeric, possibly int vs float)
            let (c1, c2) = if r.chance(1, 3) {
                // two temporal columns: both dates, both datetimes, or one of each
                let kind = r.below(3);
                let same: Vec<&ColSpec> = cols
                    .iter()
                    .filter(|c| match (kind, inner(&c.ty)) {
                        (0, DataType::Date(_)) | (1, DataType::DateTime(_)) => true,
                        (2, DataType::Date(_)) | (2, DataType::DateTime(_)) => true,
                        _ => false,
                    })
                    .collect();
                if same.len() >= 2 { (*r.pick(&same), *r.pick(&same)) } else { (*r.pick(&numeric), *r.pick(&numeric)) }
            } else {
                (*r.pick(&numeric), *r.pick(&numeric))
            };
            P::Cmp(*r.pick(&ops), Operand::Col(c1.name.clone()), Operand::Col(c2.name.clone()))
        }
        6 | 7 => {
            let c = r.pick(cols);
            let n = 1 + r.usize(4);
            let vs: Vec<Value> = (0..n)
                .map(|_| {
                    let v = near_literal(r, &c.ty);
                    // lists are homogeneous: same variant as the column
                    match (inner(&c.ty), &v) {
                        (DataType::Integer(_), Value::Float(f)) => Value::integer(**f as i64),
                        (DataType::Float(_), Value::Integer(i)) => Value::float(**i as f64),
                        _ => v,
                    }
                })
                .collect();
            P::In(c.name.clone(), vs)
        }
        8 => P::IsNull(r.pick(cols).name.clone()),
        9 => {
            let c = *r.pick(&numeric);
            P::Opaque(if r.bool() { "abs" } else { "opposite" }, c.name.clone(), Value::integer(r.range(-3, 10)))
        }
        10 => {
            let c = cols.iter().find(|c| matches!(inner(&c.ty), DataType::Boolean(_))).unwrap();
            P::BoolCol(c.name.clone())
        }
        _ => {
            if r.chance(1, 3) {
                P::Lit(r.bool())
            } else {
                let c = cols.iter().find(|c| matches!(inner(&c.ty), DataType::Text(_))).unwrap();
                P::Opaque("char_length", c.name.clone(), Value::integer(r.range(0, 4)))
            }
        }
    }
}

fn shape(p: &P) -> String {
    match p {
        P::Cmp(op, l, r) => format!(
            "{}{}{}",
            if matches!(l, Operand::Col(_)) { "col" } else { "lit" },
            op,
            if matches!(r, Operand::Col(_)) { "col" } else { "lit" }
        ),
        P::In(..) => "in".into(),
        P::And(..) => "and".into(),
        P::Or(..) => "or".into(),
        P::Not(..) => "not".into(),
        P::IsNull(..) => "isnull".into(),
        P::Opaque(..) => "opaque".into(),
        P::Lit(..) => "lit".into(),
        P::BoolCol(..) => "boolcol".into(),
    }
}

/// integers/floats of the row beyond 2^53 (where int -> float conversion stops being exact)
fn beyond_2_53(row: &[(String, Value)]) -> bool {
    row.iter().any(|(_, v)| match num_of(v) {
        Some(Num::I(i)) => i.unsigned_abs() > (1u64 << 53),
        Some(Num::F(f)) => f.abs() > 9.0e15,
        None => false,
    })
}

fn gen_row(r: &mut Rng, cols: &[ColSpec]) -> Option<Vec<(String, Value)>> {
    cols.iter()
        .map(|c| gen_value_in(r, &c.ty).map(|v| (c.name.clone(), v)))
        .collect()
}

fn where_case(i: u64, p: &Params, rep: &mut Report) {
    let mut r = p.rng(i);
    let cols = gen_cols(&mut r, "");
    let s = DataType::structured(cols.iter().map(|c| (c.name.clone(), c.ty.clone())).collect::<Vec<_>>());
    let pred = gen_pred(&mut r, &cols, 3);
    let e = pred.to_expr(None);
    let narrowed = match guarded(|| s.filter(&e)) {
        Ok(t) => t,
        Err(pi) => {
            rep.count("filter_panics");
            if rep.notes.len() < 5 {
                rep.notes.push(format!("filter panics on {}: {} at {}", e, pi.message, pi.location));
            }
            return;
        }
    };
    rep.count(&format!("top:{}", shape(&pred)));
    if narrowed != s {
        rep.count("narrowed_types");
    }
    for _ in 0..8 {
        let row = match gen_row(&mut r, &cols) {
            Some(x) => x,
            None => return,
        };
        let rowv = Value::structured(row.clone());
        if member_premise(&rowv, &s) != Some(true) {
            continue;
        }
        rep.eval();
        match eval(&pred, &row) {
            Some(Some(true)) => {
                rep.count("rows_satisfying");
                rep.nontrivial(hash64(&(e.to_string(), s.to_string(), rowv.to_string())));
                // second opinion when no NULL is involved: the library's own evaluation must agree
                if member(&rowv, &narrowed) == Some(false) {
                    rep.violation(
                        if beyond_2_53(&row) {
                            "C10|where|row value beyond 2^53 (integer/float conversion is not exact)".to_string()
                        } else {
                            format!("C10|where|{}", shape(&pred))
                        },
                        format!("row {} satisfies {} but is not in the narrowed type {}", rowv, e, narrowed),
                        json!({"type": s.to_string(), "predicate": e.to_string(), "row": rowv.to_string(), "narrowed": narrowed.to_string()}),
                    );
                }
                rep.sample(|| json!({"type": s.to_string(), "predicate": e.to_string(), "row": rowv.to_string(), "narrowed": narrowed.to_string()}));
            }
            Some(_) => rep.count("rows_not_satisfying"),
            None => rep.count("rows_undecided_by_harness"),
        }
    }
}

fn join_case(i: u64, p: &Params, rep: &mut Report) {
    let mut r = p.rng(i ^ 0x10_0000_0000);
    let lcols = gen_cols(&mut r, "");
    let rcols = gen_cols(&mut r, "");
    let table = |name: &str, cols: &[ColSpec]| -> Relation {
        let schema: qrlew::relation::Schema = cols
            .iter()
            .map(|c| qrlew::relation::Field::new(c.name.clone(), c.ty.clone(), None))
            .collect();
        Relation::table().name(name).schema(schema).size(20).build()
    };
    let (lt, rt) = (table("lt", &lcols), table("rt", &rcols));
    // predicate over qualified columns
    let qual = |side: &str, cols: &[ColSpec]| -> Vec<ColSpec> {
        cols.iter().map(|c| ColSpec { name: format!("{}.{}", side, c.name), ty: c.ty.clone() }).collect()
    };
    let mut all = qual(Join::left_name(), &lcols);
    all.extend(qual(Join::right_name(), &rcols));
    let pred = gen_pred(&mut r, &all, 2);
    let e = pred.to_expr(Some("q"));
    let kind = r.below(4);
    let join = guarded(|| {
        let b = Relation::join().left(lt.clone()).right(rt.clone());
        let b = match kind {
            0 => b.inner(e.clone()),
            1 => b.left_outer(e.clone()),
            2 => b.right_outer(e.clone()),
            _ => b.full_outer(e.clone()),
        };
        let j: Relation = b.build();
        j
    });
    let join = match join {
        Ok(j) => j,
        Err(pi) => {
            rep.count("join_build_panics");
            if rep.notes.len() < 5 {
                rep.notes.push(format!("join build panics on {}: {} at {}", e, pi.message, pi.location));
            }
            return;
        }
    };
    let kind_name = ["inner", "left_outer", "right_outer", "full_outer"][kind as usize];
    rep.count(&format!("join:{}", kind_name));
    let fields: Vec<(String, DataType)> = join.schema().iter().map(|f| (f.name().to_string(), f.data_type())).collect();
    if fields.len() != lcols.len() + rcols.len() {
        return;
    }
    for _ in 0..8 {
        let (lrow, rrow) = match (gen_row(&mut r, &lcols), gen_row(&mut r, &rcols)) {
            (Some(a), Some(b)) => (a, b),
            _ => return,
        };
        let mut row: Vec<(String, Value)> = vec![];
        for (n, v) in lrow.iter() {
            row.push((format!("{}.{}", Join::left_name(), n), v.clone()));
        }
        for (n, v) in rrow.iter() {
            row.push((format!("{}.{}", Join::right_name(), n), v.clone()));
        }
        rep.eval();
        if eval(&pred, &row) != Some(Some(true)) {
            rep.count("pairs_not_matching");
            continue;
        }
        rep.count("pairs_matching");
        rep.nontrivial(hash64(&(e.to_string(), format!("{:?}", row))));
        // a matching pair appears in the join output (whatever the join kind): each value must be
        // in the type of the corresponding output field
        for ((_, v), (fname, ft)) in row.iter().zip(fields.iter()) {
            if member(v, ft) == Some(false) {
                rep.violation(
                    if beyond_2_53(&row) {
                        "C10|join-on|row value beyond 2^53 (integer/float conversion is not exact)".to_string()
                    } else {
                        format!("C10|join-on|{}|{}", kind_name, shape(&pred))
                    },
                    format!("pair satisfies ON {} but value {} is outside the type {} of output field {}", e, v, ft, fname),
                    json!({"left": lt.schema().to_string(), "right": rt.schema().to_string(), "on": e.to_string(), "kind": kind_name,
                           "pair": Value::structured(row.clone()).to_string(), "join_schema": join.schema().to_string()}),
                );
                break;
            }
        }
    }
}

pub fn run(p: &Params) -> Report {
    let mut rep = Report::for_params("C10", p);
    let pp = p.clone();
    drive(
        p.cases,
        &mut rep,
        &|i, rep| {
            if i % 4 == 3 {
                join_case(i, &pp, rep)
            } else {
                where_case(i, &pp, rep)
            }
        },
        &|i, pi, rep| {
            rep.count("harness_level_panics");
            if rep.notes.len() < 5 {
                rep.notes.push(format!("panic in case {}: {} at {}", i, pi.message, pi.location));
            }
        },
    );
    let _ = DataTyped::data_type(&Value::unit());
    rep
}
