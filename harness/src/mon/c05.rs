//! C05 — privacy-unit tracking: a tracked row depends only on its own unit's data.
use crate::exec::sqlite::{md5_hex, Db, RandomMode, Rows, V};
use crate::gen::catalog::*;
use crate::gen::dpsql::*;
use crate::mon::dpq::*;
use crate::mon::execq::{compile, render, Compiled};
use crate::util::*;
use qrlew::differential_privacy::DpParameters;
use qrlew::privacy_unit_tracking::{PrivacyUnit, Strategy};
use qrlew::relation::{Relation, Variant as _};
use serde_json::json;
use std::collections::HashMap;

fn run_on(w: &DpWorld, rendered: &str) -> Result<Rows, String> {
    let db = Db::new(true, RandomMode::Counter);
    w.cat.load(&db)?;
    // staged, so that a CTE containing RANDOM() is evaluated once (as PostgreSQL materialises it)
    db.staged(rendered, &mut |_, _, _| Ok(())).map(|(_, r)| r)
}

fn multiset_without(rows: &Rows, skip: &[usize], only_pu: Option<(usize, &str)>) -> Vec<String> {
    let mut v: Vec<String> = rows
        .rows
        .iter()
        .filter(|r| only_pu.map_or(true, |(i, p)| r[i].key() == p))
        .map(|r| r.iter().enumerate().filter(|(i, _)| !skip.contains(i)).map(|(_, x)| x.key()).collect::<Vec<_>>().join("|"))
        .collect();
    v.sort();
    v
}

pub fn check(q: &DpQuery, w: &DpWorld, strategy: Strategy, rep: &mut Report) {
    let sql = &q.sql;
    let relations = w.cat.relations();
    let rel = match compile(sql, &relations) {
        Compiled::Ok(r) => r,
        _ => {
            rep.count("parse_error_or_panic");
            return;
        }
    };
    let params = DpParameters::from_epsilon_delta(1.0, 1e-3);
    let c = match pup_compile(&rel, &relations, None, w.privacy_unit(), params, strategy) {
        Outcome::Ok(c) => c,
        Outcome::Err(_) => {
            rep.count(&format!("pup_refused:{:?}", strategy));
            return;
        }
        Outcome::Panic(p) => {
            rep.count("pup_panic");
            if rep.notes.len() < 5 {
                rep.notes.push(format!("pup rewriting panics on {}: {} at {}", sql, p.message, p.location));
            }
            return;
        }
    };
    let rendered = match render(&c.relation) {
        Ok(s) => s,
        Err(_) => return,
    };
    let full = match run_on(w, &rendered) {
        Ok(r) => r,
        Err(e) => {
            rep.count("execution_error");
            if rep.notes.len() < 6 {
                rep.notes.push(format!("execution error: {} on {}", e.chars().take(300).collect::<String>(), sql));
            }
            if e.contains("no such column") {
                // the rewriting refers to a column its own inputs do not have: no tracked rows at all
                rep.eval();
                rep.violation(
                    format!("C05|rewritten-relation-refers-to-a-missing-column|{}{}", q.features.first().cloned().unwrap_or("plain"), if w.weighted { "|weighted" } else { "" }),
                    format!("the engine rejects the privacy-unit-preserving rewriting: {}", e.chars().take(200).collect::<String>()),
                    json!({"world": w.cat.to_json(4), "weighted_privacy_unit": w.weighted, "query": sql, "strategy": format!("{:?}", strategy), "rewritten": rendered}),
                );
            }
            return;
        }
    };
    let (pi, wi) = match (full.col(PrivacyUnit::privacy_unit()), full.col(PrivacyUnit::privacy_unit_weight())) {
        (Some(a), Some(b)) => (a, b),
        _ => {
            // a Public result carries no unit: fine for a query over public tables only
            rep.count("result_without_privacy_unit_columns(public)");
            let mut nodes = std::collections::HashMap::new();
            walk(&rel, &mut nodes);
            let protected_read: Vec<String> = nodes
                .values()
                .filter_map(|n| match n {
                    Relation::Table(t) => t.path().last().ok().map(|s| s.to_string()),
                    _ => None,
                })
                .filter(|t| !w.public.contains(t))
                .collect();
            if !protected_read.is_empty() && !full.rows.is_empty() {
                rep.eval();
                rep.violation(
                    format!("C05|no-privacy-unit-columns|{}", q.features.first().cloned().unwrap_or("plain")),
                    format!(
                        "the privacy-unit-preserving rewriting returns rows without privacy-unit / weight columns although the query reads the protected table(s) {:?}",
                        protected_read
                    ),
                    json!({"world": w.cat.to_json(6), "relation_name_prefix": w.cat.rel_prefix, "query": sql, "strategy": format!("{:?}", strategy),
                           "rewritten": rendered, "result": full.to_json(6)}),
                );
            }
            return;
        }
    };
    rep.eval();
    rep.count(&format!("tracked_results:{:?}", strategy));
    for f in q.features.iter() {
        rep.count(&format!("feature:{}", f));
    }
    let feature = q.features.first().cloned().unwrap_or("plain");
    let row_privacy = q.features.contains(&"row_privacy");
    let case = |extra: serde_json::Value| {
        json!({"catalog": w.cat.to_json(40), "query": sql, "strategy": format!("{:?}", strategy), "hash_privacy_unit": w.hash_pu,
               "rendered": rendered, "tracked_result_on_D": full.to_json(40), "detail": extra})
    };
    // (1) every row carries a unit and a weight
    // (a NULL unit and a NULL weight are different defects: rows without unit first)
    let null_unit = full.rows.iter().find(|r| r[pi].is_null());
    let null_weight = full.rows.iter().find(|r| r[wi].is_null());
    if let Some(r) = null_unit.or(null_weight) {
        rep.violation(
            format!("C05|{}|{}", if null_unit.is_some() { "null-privacy-unit" } else { "null-weight" }, feature),
            format!(
                "a tracked row has a NULL {}: {:?}",
                if null_unit.is_some() { "privacy unit" } else { "weight (its privacy unit is not NULL)" },
                r.iter().map(|v| v.render()).collect::<Vec<_>>()
            ),
            case(json!({})),
        );
        return;
    }
    if !full.rows.is_empty() {
        rep.nontrivial(hash64(&(sql.clone(), format!("{:?}", strategy), w.hash_pu, w.cat.tables.iter().map(|t| t.rows.len()).collect::<Vec<_>>())));
    }
    if row_privacy {
        // rows of `events` are their own units with random ids: compare modulo the id
        let events = w.cat.table("events").unwrap();
        let mut union: Vec<String> = vec![];
        for i in 0..events.rows.len() {
            let mut wr = w.clone();
            wr.cat.table_mut("events").unwrap().rows = vec![events.rows[i].clone()];
            let part = match run_on(&wr, &rendered) {
                Ok(r) => r,
                Err(_) => return,
            };
            rep.count("restrictions_executed");
            let ids: std::collections::HashSet<String> = part.rows.iter().map(|r| r[pi].key()).collect();
            if ids.len() > 1 {
                rep.violation(
                    format!("C05|several-units-from-one-row|{}", feature),
                    "the result on a database restricted to one row-unit carries several unit ids".to_string(),
                    case(json!({"restricted_result": part.to_json(20)})),
                );
                return;
            }
            union.extend(multiset_without(&part, &[pi], None));
        }
        union.sort();
        if union != multiset_without(&full, &[pi], None) {
            rep.violation(
                format!("C05|rows-depend-on-other-units|{}", feature),
                "the rows of the tracked result (modulo the random row ids) are not the union of the results on each single-row database".to_string(),
                case(json!({})),
            );
        }
        return;
    }
    // (2) for every unit: rows attributed to u == result on D restricted to u
    for u in w.units() {
        let id_text = u.clone();
        let pu_key = if w.hash_pu { V::Text(md5_hex(id_text.as_bytes())).key() } else { V::Int(id_text.parse::<i64>().unwrap_or(0)).key() };
        let wr = w.restricted_to(&u);
        let part = match run_on(&wr, &rendered) {
            Ok(r) => r,
            Err(e) => {
                rep.count("execution_error_on_restriction");
                if rep.notes.len() < 6 {
                    rep.notes.push(format!("restriction error: {}", e.chars().take(200).collect::<String>()));
                }
                return;
            }
        };
        rep.count("restrictions_executed");
        if part.rows.iter().any(|r| r[pi].key() != pu_key) {
            rep.violation(
                format!("C05|foreign-unit-in-restricted-result|{}", feature),
                format!("the database restricted to unit {} yields rows attributed to another unit", u),
                case(json!({"unit": u, "restricted_result": part.to_json(20)})),
            );
            return;
        }
        let mine = multiset_without(&full, &[], Some((pi, pu_key.as_str())));
        let alone = multiset_without(&part, &[], None);
        if mine != alone {
            rep.violation(
                format!("C05|rows-depend-on-other-units|{}", feature),
                format!("unit {}: {} rows attributed in the full result, {} rows on the database restricted to the unit (or different values)", u, mine.len(), alone.len()),
                case(json!({"unit": u, "rows_in_full_result": mine, "rows_on_restricted_database": alone})),
            );
            return;
        }
    }
    // rows attributed to nobody we know
    let known: std::collections::HashSet<String> = w
        .units()
        .iter()
        .map(|u| if w.hash_pu { V::Text(md5_hex(u.as_bytes())).key() } else { V::Int(u.parse::<i64>().unwrap_or(0)).key() })
        .collect();
    if let Some(r) = full.rows.iter().find(|r| !known.contains(&r[pi].key())) {
        rep.violation(
            format!("C05|unknown-unit|{}", feature),
            format!("a tracked row is attributed to {} which is no privacy unit of the database", r[pi].render()),
            case(json!({})),
        );
        return;
    }
    rep.sample(|| json!({"query": sql, "strategy": format!("{:?}", strategy), "rows": full.rows.len(), "units": w.units().len(), "hash": w.hash_pu}));
    let _: HashMap<u8, u8> = HashMap::new();
}

pub fn run(p: &Params) -> Report {
    let mut rep = Report::for_params("C05", p);
    let pp = p.clone();
    drive(
        p.cases,
        &mut rep,
        &|i, rep| {
            let mut r = pp.rng(i);
            let opts = DpWorldOptions {
                n_users: 2 + r.usize(5),
                max_orders_per_user: 3,
                max_items_per_order: 2,
                n_events: 1 + r.usize(4),
                dangling: r.bool(),
                nullable: true,
            };
            let w = gen_dp_world(&mut r, &opts);
            for _ in 0..3 {
                let q = gen_pup_query(&mut r, &w);
                let strategy = if r.bool() { Strategy::Hard } else { Strategy::Soft };
                check(&q, &w, strategy, rep);
            }
        },
        &|i, pi, rep| {
            rep.count("harness_level_panics");
            if rep.notes.len() < 8 {
                rep.notes.push(format!("panic in case {}: {} at {}", i, pi.message, pi.location));
            }
        },
    );
    rep
}
