//! C08 — SQL -> Relation -> SQL preserves query results.
use crate::exec::sqlite::{Db, RandomMode, Rows, V};
use crate::gen::catalog::*;
use crate::gen::sql::{gen_query, GenQuery};
use crate::mon::execq::*;
use crate::util::*;
use qrlew::data_type::DataTyped;
use qrlew::relation::{Relation, Variant as _};
use serde_json::json;
use std::collections::HashMap;

fn multiset(rows: &Rows, order: &[usize]) -> Vec<String> {
    let mut v: Vec<String> = rows
        .rows
        .iter()
        .map(|r| order.iter().map(|i| r[*i].key()).collect::<Vec<_>>().join("|"))
        .collect();
    v.sort();
    v
}

fn cmp_v(a: &V, b: &V) -> std::cmp::Ordering {
    use std::cmp::Ordering::*;
    match (a, b) {
        (V::Null, V::Null) => Equal,
        (V::Null, _) => Less,
        (_, V::Null) => Greater,
        (V::Text(x), V::Text(y)) => x.cmp(y),
        _ => match (a.as_f64(), b.as_f64()) {
            (Some(x), Some(y)) => x.partial_cmp(&y).unwrap_or(Equal),
            (Some(_), None) => Less,
            (None, Some(_)) => Greater,
            _ => Equal,
        },
    }
}

/// the rows are sorted according to the keys (ties in any order)
fn sorted_by(rows: &Rows, keys: &[(usize, bool)]) -> bool {
    rows.rows.windows(2).all(|w| {
        for (i, desc) in keys {
            let o = cmp_v(&w[0][*i], &w[1][*i]);
            let o = if *desc { o.reverse() } else { o };
            match o {
                std::cmp::Ordering::Less => return true,
                std::cmp::Ordering::Greater => return false,
                _ => {}
            }
        }
        true
    })
}

fn culprit_of(rel: &Relation) -> Option<String> {
    let mut by_name: HashMap<String, &Relation> = HashMap::new();
    nodes(rel, &mut by_name);
    let mut found: Vec<String> = vec![];
    for n in by_name.values() {
        if let Relation::Map(m) = n {
            for e in m.projection() {
                for c in culprits(e, &m.input().data_type()) {
                    if c.starts_with("division with an integral float operand") {
                        found.push("division with an integral float operand (literal 4.0 rendered as 4)".to_string());
                    }
                }
            }
            if let Some(f) = m.filter() {
                for c in culprits(f, &m.input().data_type()) {
                    if c.starts_with("division with an integral float operand") {
                        found.push("division with an integral float operand (literal 4.0 rendered as 4)".to_string());
                    }
                }
            }
        }
    }
    found.into_iter().next()
}

/// "duplicate WITH table name": the same definition emitted twice, or two different nodes that received the same name
pub fn duplicate_cte_class(rendered: &str) -> &'static str {
    let same_definition = sqlparser::parser::Parser::parse_sql(&sqlparser::dialect::PostgreSqlDialect {}, rendered)
        .ok()
        .and_then(|st| match st.into_iter().next() {
            Some(sqlparser::ast::Statement::Query(q)) => q.with.map(|w| {
                let defs: Vec<(String, String)> = w.cte_tables.iter().map(|c| (c.alias.name.value.clone(), c.query.to_string())).collect();
                defs.iter().enumerate().any(|(i, (n, b))| defs.iter().skip(i + 1).any(|(n2, b2)| n == n2 && b == b2))
            }),
            _ => None,
        })
        .unwrap_or(false);
    if same_definition {
        "duplicate WITH table name (one node of the relation is emitted twice)"
    } else {
        "duplicate WITH table name (two nodes of the relation got the same 4-character content-hash name)"
    }
}

fn shape(feats: &[&'static str]) -> &'static str {
    if feats.contains(&"alias_shadows_column") {
        return if feats.contains(&"join_using") { "alias_shadows_column+join_using" } else { "alias_shadows_column" };
    }
    for f in [
        "cte_redefined_in_subquery", "cte_shadows_table", "cte_diamond", "set_operation", "join_using", "join_full", "join_right", "join_left", "join_cross", "join_inner", "group_by_expr", "having",
        "count_distinct", "sum_distinct", "avg_distinct", "expr_of_aggs", "agg_of_expr", "distinct", "group_by", "aggregate", "derived_table", "cte",
        "select_star", "limit", "order_by",
    ] {
        if feats.contains(&f) {
            return f;
        }
    }
    "plain"
}

pub fn check_case(cat: &Catalog, g: &GenQuery, rep: &mut Report) {
    check_case_with(cat, g, rep, "C08", false)
}

/// `sqlite_translation`: the rendering under test is the SQLite translation, executed on a plain
/// connection (no compatibility functions); rejections by the engine are judged elsewhere (C17)
pub fn check_case_with(cat: &Catalog, g: &GenQuery, rep: &mut Report, prefix: &str, sqlite_translation: bool) {
    let sql = &g.sql;
    let relations = cat.relations();
    let db = Db::new(true, RandomMode::Counter);
    if cat.load(&db).is_err() {
        rep.count("load_error");
        return;
    }
    // the engine is the judge of the original query
    let original = match db.query(sql) {
        Ok(r) => r,
        Err(e) => {
            rep.count("original_rejected_by_engine");
            if rep.notes.len() < 4 {
                rep.notes.push(format!("engine rejects generated query: {} :: {}", e.chars().take(200).collect::<String>(), sql));
            }
            return;
        }
    };
    let rel = match compile(sql, &relations) {
        Compiled::Ok(r) => r,
        Compiled::Err(_) => {
            rep.count("compile_error");
            return;
        }
        Compiled::Panic(_) => {
            rep.count("compile_panic");
            return;
        }
    };
    let rendered = if sqlite_translation {
        match guarded(|| {
            sqlparser::ast::Query::from(qrlew::dialect_translation::RelationWithTranslator(&rel, qrlew::dialect_translation::sqlite::SQLiteTranslator)).to_string()
        }) {
            Ok(s) => s,
            Err(_) => return,
        }
    } else {
        match render(&rel) {
            Ok(s) => s,
            Err(_) => {
                rep.count("render_panic");
                return;
            }
        }
    };
    let plain = Db::new(false, RandomMode::Counter);
    if sqlite_translation && cat.load(&plain).is_err() {
        return;
    }
    let got = match if sqlite_translation { plain.run_rendered(&rendered) } else { db.run_rendered(&rendered) } {
        Ok(r) => r,
        Err(_) if sqlite_translation => {
            rep.count("sqlite_translation_rejected_by_the_engine(judged by the dialect leg)");
            return;
        }
        Err(e) => {
            rep.eval();
            let e_class = if e.contains("no such column") {
                "no such column".to_string()
            } else if e.contains("duplicate WITH table name") {
                duplicate_cte_class(&rendered).to_string()
            } else {
                normalise_message(&e)
            };
            rep.violation(
                if e.contains("duplicate WITH table name") {
                    format!("{}|rendered-query-rejected|{}", prefix, e_class)
                } else {
                    format!("{}|rendered-query-rejected|{}|{}", prefix, e_class, if g.ordered { "order_by" } else { shape(&g.features) })
                },
                format!("the engine accepts the original query but rejects the rendered one: {}", e.chars().take(300).collect::<String>()),
                json!({"catalog": cat.to_json(10), "query": sql, "rendered": rendered}),
            );
            return;
        }
    };
    rep.eval();
    rep.count(if sqlite_translation { "sqlite_translation_compared_with_the_original_query" } else { "compared_queries" });
    for f in g.features.iter() {
        rep.count(&format!("feature:{}", f));
    }
    if !original.rows.is_empty() {
        rep.nontrivial(hash64(&(sql.clone(), original.rows.len())));
    }
    let case = || {
        json!({"catalog": cat.to_json(10), "query": sql, "rendered": rendered,
               "original_result": original.to_json(12), "rendered_result": got.to_json(12)})
    };
    let dup_names = {
        let mut n = original.columns.clone();
        n.sort();
        n.dedup();
        n.len() != original.columns.len()
    };
    let four_quotes: String = std::iter::repeat('\'').take(4).collect();
    let consecutive_quotes = g.features.contains(&"literals_identifiers") && sql.contains(&four_quotes);
    let class: Option<String> = if dup_names && original.columns.len() != got.columns.len() {
        Some("two select items with the same output name are collapsed into one column".to_string())
    } else if consecutive_quotes {
        Some("string literal containing two consecutive quote characters".to_string())
    } else {
        culprit_of(&rel)
    };
    let cause = class.clone().unwrap_or_else(|| shape(&g.features).to_string());
    let is_class = class.is_some();
    let sig = |kind: &str| -> String {
        if is_class {
            format!("{}|result-differs|{}", prefix, cause)
        } else {
            format!("{}|{}|{}", prefix, kind, cause)
        }
    };
    // column count
    if original.columns.len() != got.columns.len() {
        rep.violation(
            sig("column-count"),
            format!("original returns {} columns, rendered {}", original.columns.len(), got.columns.len()),
            case(),
        );
        return;
    }
    // column order: by name when names are unique on both sides and equal as sets (SELECT * over USING joins)
    let star_using = g.features.contains(&"select_star") && g.features.contains(&"join_using");
    let mut order_got: Vec<usize> = (0..got.columns.len()).collect();
    let unique_names = |c: &Vec<String>| {
        let mut s = c.clone();
        s.sort();
        s.dedup();
        s.len() == c.len()
    };
    let names_comparable = unique_names(&original.columns) && unique_names(&got.columns);
    if star_using && names_comparable {
        let mut ok = true;
        for (i, n) in original.columns.iter().enumerate() {
            match got.columns.iter().position(|c| c == n) {
                Some(j) => order_got[i] = j,
                None => ok = false,
            }
        }
        if !ok {
            order_got = (0..got.columns.len()).collect();
        }
    } else if names_comparable && original.columns != got.columns {
        // explicit aliases and bare column names must be kept, in order
        let explicit: Vec<bool> = original.columns.iter().map(|n| n.chars().all(|c| c.is_ascii_alphanumeric() || c == '_')).collect();
        if original.columns.iter().zip(got.columns.iter()).zip(explicit.iter()).any(|((a, b), e)| *e && a != b) {
            rep.violation(
                sig("column-names"),
                format!("output names differ: {:?} vs {:?}", original.columns, got.columns),
                case(),
            );
            return;
        }
    }
    let order_orig: Vec<usize> = (0..original.columns.len()).collect();
    if g.limited {
        // LIMIT: same number of rows, each rendered row exists in the unlimited original result
        if original.rows.len() != got.rows.len() {
            rep.violation(
                sig("row-count-under-limit"),
                format!("original returns {} rows, rendered {}", original.rows.len(), got.rows.len()),
                case(),
            );
            return;
        }
        if let Some(u) = &g.unlimited_sql {
            if let Ok(all) = db.query(u) {
                let pool = multiset(&all, &order_orig);
                let mine = multiset(&got, &order_got);
                let mut pool_counts: HashMap<&String, i64> = HashMap::new();
                for k in pool.iter() {
                    *pool_counts.entry(k).or_insert(0) += 1;
                }
                for k in mine.iter() {
                    let e = pool_counts.entry(k).or_insert(0);
                    *e -= 1;
                    if *e < 0 {
                        rep.violation(
                            sig("row-not-in-unlimited-result"),
                            format!("rendered row {} is not a row of the query without LIMIT", k),
                            case(),
                        );
                        return;
                    }
                }
            }
        }
    } else if multiset(&original, &order_orig) != multiset(&got, &order_got) {
        rep.violation(
            sig("rows-differ"),
            format!("multisets of rows differ ({} vs {} rows)", original.rows.len(), got.rows.len()),
            case(),
        );
        return;
    }
    if g.ordered && !g.order_keys.is_empty() {
        // the rendered result must be sorted by the ORDER BY keys (ties in any order)
        let keys: Option<Vec<(usize, bool)>> = g
            .order_keys
            .iter()
            .map(|(k, d)| {
                let bare = k.rsplit('.').next().unwrap_or(k).trim_matches('"');
                original.columns.iter().position(|c| c == k || c == bare).map(|i| (order_got[i], *d))
            })
            .collect();
        if let Some(keys) = keys {
            rep.count("order_checked");
            // the engine's own ordering of the original is the reference for NULL placement
            let keys_orig: Vec<(usize, bool)> = keys.iter().map(|(j, d)| (order_got.iter().position(|x| x == j).unwrap_or(*j), *d)).collect();
            if sorted_by(&original, &keys_orig) && !sorted_by(&got, &keys) {
                rep.violation(
                    sig("order-lost"),
                    format!("the rendered result is not sorted by {:?}", g.order_keys),
                    case(),
                );
                return;
            }
        }
    }
    rep.sample(|| json!({"query": sql, "rendered": rendered, "rows": original.rows.len(), "features": g.features}));
}

/// Literals and identifiers that must keep their value
fn literal_query(r: &mut Rng, cat: &Catalog) -> GenQuery {
    let t = r.pick(&cat.tables);
    let lits = ["it''s", "a\"b", "x y", "%_", "back\\slash", "semi;colon", "--dash", "", " lead", "Tab\there", "ünï", "NULL", "''''"];
    let l = *r.pick(&lits);
    let sql = match r.below(4) {
        0 => format!("SELECT '{}' AS c0, id FROM {}", l, t.name),
        1 => format!("SELECT id, ('{}' || 'z') AS \"my col\" FROM {}", l, t.name),
        2 => format!("SELECT id AS \"select\", '{}' AS \"a.b\" FROM {} ORDER BY \"select\"", l, t.name),
        _ => format!("SELECT COUNT(*) AS \"Count Of\" FROM {} WHERE '{}' = '{}'", t.name, l, l),
    };
    GenQuery { sql, features: vec!["literals_identifiers"], ordered: false, limited: false, unlimited_sql: None, order_keys: vec![] }
}

pub fn run(p: &Params) -> Report {
    let mut rep = Report::for_params("C08", p);
    let pp = p.clone();
    drive(
        p.cases,
        &mut rep,
        &|i, rep| {
            let mut r = pp.rng(i);
            let cat = gen_generic(&mut r, 10);
            for k in 0..4 {
                let g = if k == 3 { literal_query(&mut r, &cat) } else { gen_query(&mut r, &cat) };
                check_case(&cat, &g, rep);
            }
        },
        &|i, pi, rep| {
            rep.count("harness_level_panics");
            if rep.notes.len() < 8 {
                rep.notes.push(format!("panic in case {}: {} at {}", i, pi.message, pi.location));
            }
        },
    );
    rep
}
