//! C11 — data-type lattice operations soundly over-approximate set operations.
use crate::gen::types::*;
use crate::oracle::member::{member, member_premise};
use crate::util::*;
use qrlew::data_type::intervals::{Bound, Intervals};
use qrlew::data_type::value::Value;
use qrlew::data_type::{DataType, DataTyped, Variant};
use serde_json::json;

fn variant_name(t: &DataType) -> &'static str {
    match t {
        DataType::Null => "Null",
        DataType::Unit(_) => "Unit",
        DataType::Boolean(_) => "Boolean",
        DataType::Integer(_) => "Integer",
        DataType::Enum(_) => "Enum",
        DataType::Float(_) => "Float",
        DataType::Text(_) => "Text",
        DataType::Bytes(_) => "Bytes",
        DataType::Struct(_) => "Struct",
        DataType::Union(_) => "Union",
        DataType::Optional(_) => "Optional",
        DataType::List(_) => "List",
        DataType::Set(_) => "Set",
        DataType::Array(_) => "Array",
        DataType::Date(_) => "Date",
        DataType::Time(_) => "Time",
        DataType::DateTime(_) => "DateTime",
        DataType::Duration(_) => "Duration",
        DataType::Id(_) => "Id",
        DataType::Function(_) => "Function",
        DataType::Any => "Any",
    }
}

pub fn vname(t: &DataType) -> &'static str {
    variant_name(t)
}

/// The same bounds read in the neighbouring variant of the family (int[a b] / float[a b],
/// date[a b] / datetime[a 00:00, b 00:00], bool / int{0,1}): the natural trap for cross-variant inclusion
fn twin(a: &DataType) -> Option<DataType> {
    use qrlew::data_type as dt;
    Some(match a {
        DataType::Date(d) => {
            let iv: Vec<[chrono::NaiveDateTime; 2]> = d.iter().map(|[x, y]| [x.and_hms_opt(0, 0, 0).unwrap(), y.and_hms_opt(0, 0, 0).unwrap()]).collect();
            DataType::DateTime(dt::DateTime::from_intervals(iv))
        }
        DataType::DateTime(d) => {
            let iv: Vec<[chrono::NaiveDate; 2]> = d.iter().map(|[x, y]| [x.date(), y.date()]).collect();
            DataType::Date(dt::Date::from_intervals(iv))
        }
        DataType::Integer(i) if i.iter().all(|[x, y]| x.unsigned_abs() < (1 << 52) && y.unsigned_abs() < (1 << 52)) => {
            DataType::Float(dt::Float::from_intervals(i.iter().map(|[x, y]| [*x as f64, *y as f64]).collect::<Vec<_>>()))
        }
        DataType::Float(f) if f.iter().all(|[x, y]| x.is_finite() && y.is_finite() && x.abs() < 4e15 && y.abs() < 4e15) => {
            DataType::Integer(dt::Integer::from_intervals(f.iter().map(|[x, y]| [x.ceil() as i64, y.floor() as i64]).filter(|[x, y]| x <= y).collect::<Vec<_>>()))
        }
        DataType::Boolean(_) => DataType::integer_values([0, 1]),
        _ => return None,
    })
}

fn related(r: &mut Rng, a: &DataType) -> DataType {
    if r.chance(1, 8) {
        if let Some(t) = twin(a) {
            return t;
        }
    }
    match r.below(8) {
        0 | 1 | 2 => {
            let c = gen_datatype(r, 2);
            guarded(|| a.super_union(&c)).ok().and_then(|x| x.ok()).unwrap_or(c)
        }
        3 => {
            let c = gen_datatype(r, 2);
            guarded(|| a.super_intersection(&c))
                .ok()
                .and_then(|x| x.ok())
                .unwrap_or(c)
        }
        4 => a.clone(),
        5 => DataType::optional(a.clone()),
        6 => {
            // same variant, fresh
            match a {
                DataType::Integer(_) => DataType::Integer(gen_integer(r)),
                DataType::Float(_) => DataType::Float(gen_float(r)),
                DataType::Text(_) => DataType::Text(gen_text(r)),
                DataType::Boolean(_) => DataType::Boolean(gen_boolean(r)),
                DataType::Date(_) => DataType::Date(gen_date(r)),
                DataType::DateTime(_) => DataType::DateTime(gen_datetime(r)),
                DataType::Enum(_) => DataType::Enum(gen_enum(r)),
                DataType::Time(_) => DataType::Time(gen_time(r)),
                _ => gen_datatype(r, 2),
            }
        }
        _ => gen_datatype(r, 2),
    }
}

/// Pairs on which set-theoretic reading of the lattice operations is unambiguous: same family
/// at every level (numeric = boolean/integer/float, temporal = date/datetime), optional
/// wrappers ignored. Other cross-variant pairs mean "can be injected into", e.g.
/// float ∪ struct = struct{0: any}; they are exercised and counted but not judged.
fn compatible(a: &DataType, b: &DataType) -> bool {
    use DataType::*;
    match (a, b) {
        (Any, _) | (_, Any) | (Null, _) | (_, Null) => true,
        (Optional(x), Optional(y)) => compatible(x.data_type(), y.data_type()),
        // optional against non-optional: scalars only (composite ∪ option(composite) is defined
        // by the library through injection into struct{0: ..})
        (Optional(x), y) => scalar(y) && compatible(x.data_type(), y),
        (x, Optional(y)) => scalar(x) && compatible(x, y.data_type()),
        (Boolean(_) | Integer(_) | Float(_), Boolean(_) | Integer(_) | Float(_)) => true,
        (Date(_) | DateTime(_), Date(_) | DateTime(_)) => true,
        (Text(_), Text(_)) | (Time(_), Time(_)) | (Duration(_), Duration(_)) => true,
        (Enum(_), Enum(_)) | (Bytes(_), Bytes(_)) | (Id(_), Id(_)) => true,
        (Struct(x), Struct(y)) => x.fields().iter().all(|(n, t)| {
            y.fields().iter().find(|(m, _)| m == n).map_or(true, |(_, u)| compatible(t, u))
        }),
        (Union(x), Union(y)) => x.fields().iter().all(|(n, t)| {
            y.fields().iter().find(|(m, _)| m == n).map_or(true, |(_, u)| compatible(t, u))
        }),
        (List(x), List(y)) => compatible(x.data_type(), y.data_type()),
        (Set(x), Set(y)) => compatible(x.data_type(), y.data_type()),
        (Array(x), Array(y)) => compatible(x.data_type(), y.data_type()),
        _ => false,
    }
}

fn scalar(t: &DataType) -> bool {
    use DataType::*;
    matches!(
        t,
        Boolean(_) | Integer(_) | Float(_) | Text(_) | Date(_) | DateTime(_) | Time(_) | Duration(_) | Enum(_) | Bytes(_) | Id(_)
    )
}

/// Qualifier for struct pairs: which kind of field B has that A lacks
fn struct_qualifier(a: &DataType, b: &DataType) -> String {
    // (some B-only field, some typed B-only field, some A-only field)
    fn walk(a: &DataType, b: &DataType, acc: &mut (bool, bool, bool)) {
        use DataType::*;
        match (a, b) {
            (Struct(x), Struct(y)) => {
                for (n, t) in y.fields() {
                    match x.fields().iter().find(|(m, _)| m == n) {
                        None => {
                            acc.0 = true;
                            if !matches!(t.as_ref(), Any) {
                                acc.1 = true;
                            }
                        }
                        Some((_, u)) => walk(u, t, acc),
                    }
                }
                for (n, _) in x.fields() {
                    if !y.fields().iter().any(|(m, _)| m == n) {
                        acc.2 = true;
                    }
                }
            }
            (Union(x), Union(y)) => {
                for (n, t) in y.fields() {
                    if let Some((_, u)) = x.fields().iter().find(|(m, _)| m == n) {
                        walk(u, t, acc)
                    }
                }
            }
            (Optional(x), Optional(y)) => walk(x.data_type(), y.data_type(), acc),
            (List(x), List(y)) => walk(x.data_type(), y.data_type(), acc),
            (Set(x), Set(y)) => walk(x.data_type(), y.data_type(), acc),
            (Array(x), Array(y)) => walk(x.data_type(), y.data_type(), acc),
            _ => {}
        }
    }
    let mut acc = (false, false, false);
    walk(a, b, &mut acc);
    fn shapes_differ(a: &DataType, b: &DataType) -> bool {
        use DataType::*;
        match (a, b) {
            (Array(x), Array(y)) => x.shape() != y.shape() || shapes_differ(x.data_type(), y.data_type()),
            (Optional(x), Optional(y)) => shapes_differ(x.data_type(), y.data_type()),
            (List(x), List(y)) => shapes_differ(x.data_type(), y.data_type()),
            (Set(x), Set(y)) => shapes_differ(x.data_type(), y.data_type()),
            (Struct(x), Struct(y)) => x.fields().iter().any(|(n, t)| {
                y.fields().iter().find(|(m, _)| m == n).map_or(false, |(_, u)| shapes_differ(t, u))
            }),
            (Union(x), Union(y)) => x.fields().iter().any(|(n, t)| {
                y.fields().iter().find(|(m, _)| m == n).map_or(false, |(_, u)| shapes_differ(t, u))
            }),
            _ => false,
        }
    }
    if shapes_differ(a, b) {
        return "|array shapes differ".to_string();
    }
    match acc {
        (false, _, false) => String::new(),
        (true, false, _) => "|struct field sets differ (B-only fields typed any)".to_string(),
        (true, true, _) => "|struct field sets differ (B-only field with a proper type)".to_string(),
        (false, _, true) => "|struct field sets differ (A-only fields)".to_string(),
    }
}

fn case_json(a: &DataType, b: &DataType, v: &Value) -> serde_json::Value {
    json!({"A": a.to_string(), "B": b.to_string(), "v": v.to_string(),
           "A_debug": format!("{:?}", a), "B_debug": format!("{:?}", b), "v_debug": format!("{:?}", v)})
}

fn lattice_case(i: u64, p: &Params, rep: &mut Report) {
    let mut r = p.rng(i);
    let a = gen_datatype(&mut r, 2);
    let b = related(&mut r, &a);
    if std::env::var_os("QV_TRACE").is_some() {
        eprintln!("A = {}\nB = {}", a, b);
    }
    let pair = format!("{}x{}", variant_name(&a), variant_name(&b));
    rep.count(&format!("pair:{}", pair));
    let judged = compatible(&a, &b);
    if !judged {
        rep.count("pairs_exercised_not_judged(cross-family)");
    }
    let q = struct_qualifier(&a, &b);
    let qr = struct_qualifier(&b, &a);
    let mut subset = |x: &DataType, y: &DataType, rep: &mut Report| -> bool {
        match guarded(|| x.is_subset_of(y)) {
            Ok(v) => v,
            Err(p) => {
                rep.count("panics_in_is_subset_of");
                if p.budget {
                    rep.violation(
                        "C11|non-termination|a lattice operation exceeded the recursion / work budget".to_string(),
                        format!("is_subset_of does not return: {}", p.message),
                        json!({"A": x.to_string(), "B": y.to_string()}),
                    );
                }
                false
            }
        }
    };
    let sub = subset(&a, &b, rep);
    let sub_ba = subset(&b, &a, rep);
    if sub {
        rep.count("subset_true");
    }
    // a panic in one operation (e.g. the union of two enums that give one code two names) must not hide
    // what the other operations answer on the same pair
    let uni = match guarded(|| a.super_union(&b)) {
        Ok(x) => x.map_err(|e| e.to_string()),
        Err(p) => {
            rep.count("panics_in_super_union");
            Err(p.message)
        }
    };
    let int = match guarded(|| a.super_intersection(&b)) {
        Ok(x) => x.map_err(|e| e.to_string()),
        Err(p) => {
            rep.count("panics_in_super_intersection");
            Err(p.message)
        }
    };
    if uni.is_err() {
        rep.count("union_err");
    }
    if int.is_err() {
        rep.count("intersection_err");
    }
    let mut values: Vec<Value> = vec![];
    for _ in 0..3 {
        if let Some(v) = gen_value_in(&mut r, &a) {
            values.push(v);
        }
        if let Some(v) = gen_value_in(&mut r, &b) {
            values.push(v);
        }
    }
    values.push(gen_value_any(&mut r, 1));
    for v in values.iter() {
        rep.eval();
        // premises use the strict reading, conclusions the lax one
        let in_a = if judged { member_premise(v, &a) } else { None };
        let in_b = if judged { member_premise(v, &b) } else { None };
        let out_a = if judged { member(v, &a) } else { None };
        let out_b = if judged { member(v, &b) } else { None };
        if in_a.is_some() && in_b.is_some() {
            rep.nontrivial(hash64(&(a.to_string(), b.to_string(), v.to_string())));
        }
        // subset law, both directions
        if sub && in_a == Some(true) && out_b == Some(false) {
            rep.violation(
                if q.is_empty() { format!("C11|subset|{}", pair) } else { format!("C11|subset{}", q) },
                format!("A ⊆ B claimed, v ∈ A, v ∉ B"),
                case_json(&a, &b, v),
            );
        }
        if sub_ba && in_b == Some(true) && out_a == Some(false) {
            rep.violation(
                if qr.is_empty() { format!("C11|subset|{}x{}", variant_name(&b), variant_name(&a)) } else { format!("C11|subset{}", qr) },
                format!("A ⊆ B claimed, v ∈ A, v ∉ B (A and B are swapped in the case)"),
                case_json(&b, &a, v),
            );
        }
        if let Ok(u) = &uni {
            rep.count("union_checked");
            if (in_a == Some(true) || in_b == Some(true)) && member(v, u) == Some(false) {
                rep.violation(
                    if q.is_empty() { format!("C11|union|{}", pair) } else if q.contains("array") { format!("C11|union{}", q) } else { "C11|union|struct field sets differ".to_string() },
                    format!("v in A or B but not in super_union = {}", u),
                    case_json(&a, &b, v),
                );
            }
        }
        if let Ok(n) = &int {
            rep.count("intersection_checked");
            if in_a == Some(true) && in_b == Some(true) && member(v, n) == Some(false) {
                rep.violation(
                    if q.is_empty() { format!("C11|intersection|{}", pair) } else { "C11|intersection|struct field sets differ".to_string() },
                    format!("v in A and B but not in super_intersection = {}", n),
                    case_json(&a, &b, v),
                );
            }
        }
        // a value is contained in its own inferred type
        let tv = v.data_type();
        if !tv.contains(v) {
            rep.violation(
                format!("C11|own-type-contains|{}", variant_name(&tv)),
                format!("!type_of(v).contains(v), type_of(v) = {}", tv),
                case_json(&tv, &tv, v),
            );
        }
        if member(v, &tv) == Some(false) {
            rep.violation(
                format!("C11|own-type-member|{}", variant_name(&tv)),
                format!("v not a member of type_of(v) = {}", tv),
                case_json(&tv, &tv, v),
            );
        }
        // the library's membership may not exclude a structural member of the same variant family
        let primitive = matches!(
            a,
            DataType::Boolean(_)
                | DataType::Integer(_)
                | DataType::Float(_)
                | DataType::Text(_)
                | DataType::Date(_)
                | DataType::Time(_)
                | DataType::DateTime(_)
                | DataType::Duration(_)
        );
        if primitive
            && in_a == Some(true)
            && variant_name(&v.data_type()) == variant_name(&a)
            && !a.contains(v)
        {
            rep.violation(
                format!("C11|contains-excludes-member|{}", variant_name(&a)),
                "structural member rejected by contains".to_string(),
                case_json(&a, &a, v),
            );
        }
    }
    rep.sample(|| json!({"A": a.to_string(), "B": b.to_string(), "A_subset_B": sub,
        "union": uni.as_ref().map(|u| u.to_string()).unwrap_or("Err".into()),
        "intersection": int.as_ref().map(|u| u.to_string()).unwrap_or("Err".into()),
        "values": values.iter().map(|v| v.to_string()).collect::<Vec<_>>() }));
}

// ------------------------------------------------------------ interval-set histories

/// naive model: unbounded list of closed intervals, kept normalised
#[derive(Clone, Debug)]
struct Model<B>(Vec<(B, B)>);

impl<B: Bound> Model<B> {
    fn norm(mut v: Vec<(B, B)>) -> Model<B> {
        v.sort_by(|x, y| x.0.partial_cmp(&y.0).unwrap());
        let mut out: Vec<(B, B)> = vec![];
        for (a, b) in v {
            if let Some(last) = out.last_mut() {
                if a <= last.1 {
                    if b > last.1 {
                        last.1 = b;
                    }
                    continue;
                }
            }
            out.push((a, b));
        }
        Model(out)
    }
    fn union(&self, o: &Model<B>) -> Model<B> {
        let mut v = self.0.clone();
        v.extend(o.0.iter().cloned());
        Model::norm(v)
    }
    fn inter(&self, o: &Model<B>) -> Model<B> {
        let mut v = vec![];
        for (a, b) in self.0.iter() {
            for (c, d) in o.0.iter() {
                let lo = if a >= c { a.clone() } else { c.clone() };
                let hi = if b <= d { b.clone() } else { d.clone() };
                if lo <= hi {
                    v.push((lo, hi));
                }
            }
        }
        Model::norm(v)
    }
    fn contains(&self, x: &B) -> bool {
        self.0.iter().any(|(a, b)| a <= x && x <= b)
    }
    fn points(&self) -> Vec<B> {
        self.0.iter().flat_map(|(a, b)| [a.clone(), b.clone()]).collect()
    }
}

fn structural<B: Bound>(iv: &Intervals<B>) -> Result<(), String> {
    if iv.len() >= 128 {
        return Err(format!("{} pieces (capacity is 128)", iv.len()));
    }
    for [a, b] in iv.iter() {
        if !(a <= b) {
            return Err(format!("piece with min > max: [{}, {}]", a, b));
        }
    }
    for w in iv.windows(2) {
        if !(w[0][1] < w[1][0]) {
            return Err(format!(
                "pieces not sorted/disjoint: [{}, {}] then [{}, {}]",
                w[0][0], w[0][1], w[1][0], w[1][1]
            ));
        }
    }
    Ok(())
}

fn history<B: Bound>(
    kind: &str,
    r: &mut Rng,
    rep: &mut Report,
    point: &mut dyn FnMut(&mut Rng) -> B,
) {
    let steps = match r.below(4) {
        0 => 5 + r.usize(20),
        1 => 100 + r.usize(60),
        _ => 20 + r.usize(150),
    };
    let mut cur: Intervals<B> = Intervals::empty();
    let mut model: Model<B> = Model(vec![]);
    let mut log: Vec<String> = vec![];
    let mut crossed = false;
    // "climbing" histories: mostly unions of a few singletons, so that the number of pieces
    // reaches the capacity (128) and the structure has to collapse into its hull
    let climbing = r.chance(1, 2);
    let steps = if climbing { 150 + r.usize(150) } else { steps };
    for _ in 0..steps {
        // build an operand
        let npieces = if climbing {
            1 + r.usize(3)
        } else if r.chance(1, 6) {
            2 + r.usize(40)
        } else {
            1 + r.usize(2)
        };
        let mut pieces = vec![];
        for _ in 0..npieces {
            let (a, b) = {
                let x = point(r);
                if r.chance(if climbing { 199 } else { 100 }, 200) {
                    (x.clone(), x)
                } else {
                    let y = point(r);
                    if x <= y {
                        (x, y)
                    } else {
                        (y, x)
                    }
                }
            };
            pieces.push((a, b));
        }
        let op_union = r.chance(if climbing { 39 } else { 3 }, if climbing { 40 } else { 4 }) || cur.is_empty();
        if climbing && !op_union {
            // intersect with one wide interval so that the climb is not reset
            let (x, y) = (point(r), point(r));
            pieces = vec![if x <= y { (x, y) } else { (y, x) }];
        }
        let operand_model = Model::norm(pieces.clone());
        let mut operand: Intervals<B> = Intervals::empty();
        for (a, b) in pieces.iter() {
            operand = operand.union_interval(a.clone(), b.clone());
        }
        // operand itself is an over-approximation of its model (may have collapsed)
        let before_len = cur.len();
        let (next, next_model, opname) = if op_union {
            (cur.clone().union(operand.clone()), model.union(&operand_model), "union")
        } else {
            (
                cur.clone().intersection(operand.clone()),
                model.inter(&operand_model),
                "intersection",
            )
        };
        log.push(format!(
            "{} {}",
            opname,
            pieces.iter().map(|(a, b)| format!("[{} {}]", a, b)).collect::<Vec<_>>().join(" ")
        ));
        rep.eval();
        rep.count(&format!("hist_op:{}:{}", kind, opname));
        if op_union && before_len >= 100 && next.len() < before_len / 2 {
            crossed = true;
        }
        if let Err(e) = structural(&next) {
            rep.violation(
                format!("C11|intervals|{}|structure|{}", kind, opname),
                e,
                json!({"kind": kind, "history": log, "result": next.to_string()}),
            );
            return;
        }
        // no point lost: every boundary point of the model result (and of both operands for union)
        let mut probes = next_model.points();
        if probes.len() > 64 {
            let k = probes.len();
            probes = (0..64).map(|j| probes[(j * k) / 64].clone()).collect();
        }
        for x in probes.iter() {
            if !next.iter().any(|[a, b]| a <= x && x <= b) {
                rep.violation(
                    format!("C11|intervals|{}|lost-point|{}", kind, opname),
                    format!("point {} of the exact result is not in {}", x, next),
                    json!({"kind": kind, "history": log, "point": x.to_string(), "result": next.to_string()}),
                );
                return;
            }
            // library's own membership must agree that the point is inside
            if !next.contains(x) {
                rep.violation(
                    format!("C11|intervals|{}|contains|{}", kind, opname),
                    format!("contains({}) is false on {}", x, next),
                    json!({"kind": kind, "history": log, "point": x.to_string(), "result": next.to_string()}),
                );
                return;
            }
        }
        // subset relation of the library on the two operands of a union
        if op_union && !cur.is_subset_of(&next) {
            rep.violation(
                format!("C11|intervals|{}|union-not-superset", kind),
                format!("{} is not a subset of its union {}", cur, next),
                json!({"kind": kind, "history": log}),
            );
            return;
        }
        let _ = model.contains(&point(r));
        cur = next;
        model = next_model;
    }
    if crossed {
        rep.count(&format!("hist_crossed_capacity:{}", kind));
    }
    rep.nontrivial(hash64(&log));
    rep.count(&format!("hist:{}", kind));
    if rep.samples.len() < 6 && crossed {
        let l = log.len();
        rep.samples.push(json!({"interval_history": kind, "ops": l, "crossed_capacity": crossed,
            "first_ops": log.iter().take(3).collect::<Vec<_>>(), "final_pieces": cur.len()}));
    }
}

fn history_case(i: u64, p: &Params, rep: &mut Report) {
    let mut r = p.rng(i ^ 0x5555_0000_0000);
    match r.below(4) {
        0 => history::<i64>("i64", &mut r, rep, &mut |r| {
            if r.chance(1, 8) {
                int_any(r)
            } else {
                r.range(-300000, 300000)
            }
        }),
        1 => history::<f64>("f64", &mut r, rep, &mut |r| {
            if r.chance(1, 8) {
                float_any(r)
            } else {
                (r.range(-300000, 300000) as f64) / 4.0
            }
        }),
        2 => history::<String>("str", &mut r, rep, &mut |r| {
            if r.chance(1, 4) {
                text_any(r)
            } else {
                format!("{}{}", (b'a' + r.below(26) as u8) as char, r.below(4000))
            }
        }),
        _ => history::<chrono::NaiveDate>("date", &mut r, rep, &mut |r| {
            chrono::NaiveDate::from_num_days_from_ce_opt(r.range(700000, 760000) as i32).unwrap()
        }),
    }
}

/// Function types and function values. The independent membership oracle has no notion of a function
/// value, so membership is the library's own `contains` here (as the property words it: "if the library
/// says A is a subset of B and v is in A then v is in B").
fn function_case(i: u64, p: &Params, rep: &mut Report) {
    use qrlew::data_type::function as f;
    let mut r = p.rng(i ^ 0xF0_0000_0000);
    let values: Vec<(&str, Value)> = vec![
        ("ln", Value::function(f::ln())),
        ("exp", Value::function(f::exp())),
        ("sqrt", Value::function(f::sqrt())),
        ("abs", Value::function(f::abs())),
        ("sin", Value::function(f::sin())),
        ("lower", Value::function(f::lower())),
        ("char_length", Value::function(f::char_length())),
        ("md5", Value::function(f::md5())),
    ];
    let (vname_, v) = r.pick(&values).clone();
    let (vd, vc) = match &v {
        Value::Function(fv) => ((**fv).domain(), (**fv).co_domain()),
        _ => return,
    };
    // domains / co-domains around the value's own: narrower, equal, wider
    let around = |r: &mut Rng, t: &DataType| -> DataType {
        match r.below(6) {
            0 => t.clone(),
            1 => DataType::Any,
            2 => match t {
                DataType::Float(_) => DataType::float(),
                DataType::Integer(_) => DataType::integer(),
                DataType::Text(_) => DataType::text(),
                t => t.clone(),
            },
            3 => match t {
                DataType::Float(_) => DataType::float_interval(1.0, 1.0 + r.range(0, 20) as f64),
                DataType::Integer(_) => DataType::integer_interval(0, r.range(0, 20)),
                DataType::Text(_) => DataType::text_values(["a".to_string(), "b".to_string()]),
                t => t.clone(),
            },
            4 => match t {
                DataType::Float(_) => DataType::float_min(0.0),
                DataType::Integer(_) => DataType::integer_min(0),
                t => t.clone(),
            },
            // same variant only: cross-variant inclusions (text vs bytes, ...) are judged by the lattice cases
            _ => match t {
                DataType::Float(_) => DataType::float_interval(-(r.range(0, 5) as f64), r.range(0, 50) as f64),
                DataType::Integer(_) => DataType::integer_interval(-r.range(0, 5), r.range(0, 50)),
                t => t.clone(),
            },
        }
    };
    let a = DataType::function(around(&mut r, &vd), around(&mut r, &vc));
    let b = DataType::function(around(&mut r, &vd), around(&mut r, &vc));
    let case = || json!({"A": a.to_string(), "B": b.to_string(), "function_value": vname_, "value_domain": vd.to_string(), "value_co_domain": vc.to_string()});
    let in_a = a.contains(&v);
    let in_b = b.contains(&v);
    rep.eval();
    rep.count("function_types_checked");
    if in_a || in_b {
        rep.nontrivial(hash64(&(a.to_string(), b.to_string(), vname_)));
    }
    if a.is_subset_of(&b) {
        rep.count("function_subset_true");
        if in_a && !in_b {
            rep.violation("C11|function|subset-but-member-lost".to_string(), format!("{} ⊆ {} and {} ∈ A but ∉ B", a, b, vname_), case());
            return;
        }
    }
    if let Ok(u) = a.super_union(&b) {
        if (in_a || in_b) && !u.contains(&v) {
            rep.violation("C11|function|union-loses-member".to_string(), format!("{} ∈ A or B but ∉ {}", vname_, u), case());
            return;
        }
    }
    if let Ok(x) = a.super_intersection(&b) {
        if in_a && in_b && !x.contains(&v) {
            rep.violation("C11|function|intersection-loses-common-member".to_string(), format!("{} ∈ A and B but ∉ {}", vname_, x), case());
            return;
        }
    }
    let own = v.data_type();
    if !own.contains(&v) {
        rep.violation("C11|function|own-type-does-not-contain-the-value".to_string(), format!("{} ∉ {}", vname_, own), case());
    }
}

pub fn run(p: &Params) -> Report {
    let mut rep = Report::for_params("C11", p);
    let n = p.cases;
    let pp = p.clone();
    drive(
        n,
        &mut rep,
        &|i, rep| {
            if i % 8 == 7 {
                history_case(i, &pp, rep)
            } else if i % 8 == 3 {
                function_case(i, &pp, rep)
            } else {
                lattice_case(i, &pp, rep)
            }
        },
        &|i, pi, rep| {
            // a panic is not an unsound answer: counted and reported, judged by C18 where it applies
            rep.count("panics");
            if pi.budget {
                // ... but an operation that does not come back is: the depth / work guard of the hooks fired
                rep.violation(
                    "C11|non-termination|a lattice operation exceeded the recursion / work budget".to_string(),
                    format!("case {}: {}", i, pi.message),
                    json!({"case_index": i, "message": pi.message}),
                );
            }
            if rep.notes.len() < 5 {
                rep.notes.push(format!("panic in case {}: {} at {}", i, pi.message, pi.location));
            }
        },
    );
    rep
}
