//! C01 — DP aggregates: true sensitivity never exceeds the calibrated clip bound.
use crate::exec::sqlite::{Db, RandomMode, Rows};
use crate::gen::catalog::*;
use crate::gen::dpsql::*;
use crate::mon::dpq::*;
use crate::mon::execq::{compile, render, Compiled};
use crate::util::*;
use qrlew::data_type::value::Value;
use qrlew::differential_privacy::group_by::COUNT_DISTINCT_PID;
use qrlew::differential_privacy::DpParameters;
use serde_json::json;
use std::collections::{HashMap, HashSet};

struct Run {
    stages: HashMap<String, Rows>,
}

/// Zero-noise staged run; `pin`: stages whose content is overwritten right after they are computed
fn run(w: &DpWorld, rendered: &str, noise_nodes: &HashSet<String>, pin: &HashMap<String, Rows>) -> Result<Run, String> {
    let db = Db::new(true, RandomMode::Counter);
    w.cat.load(&db)?;
    let (stages, _) = db.staged_with(
        rendered,
        &mut |db, name| {
            if noise_nodes.contains(name) {
                db.set_random(RandomMode::Const(1.0));
            } else {
                db.set_random(RandomMode::Counter);
            }
        },
        &mut |db, name, _| match pin.get(name) {
            Some(rows) => db.overwrite_stage(name, rows),
            None => Ok(()),
        },
    )?;
    Ok(Run { stages: stages.into_iter().collect() })
}

/// vector of a noised column over the groups, keyed by the non-noised columns
fn vector(rows: &Rows, col: &str, key_cols: &[String]) -> HashMap<String, f64> {
    let ci = match rows.col(col) {
        Some(i) => i,
        None => return HashMap::new(),
    };
    let kidx: Vec<usize> = key_cols.iter().filter_map(|k| rows.col(k)).collect();
    rows.rows
        .iter()
        .map(|r| (kidx.iter().map(|i| r[*i].key()).collect::<Vec<_>>().join("|"), r[ci].as_f64().unwrap_or(0.0)))
        .collect()
}

pub fn check(q: &DpQuery, w: &DpWorld, params: &DpParameters, r: &mut Rng, rep: &mut Report) {
    let sql = &q.sql;
    let relations = w.cat.relations();
    let rel = match compile(sql, &relations) {
        Compiled::Ok(r) => r,
        _ => {
            rep.count("parse_error_or_panic");
            return;
        }
    };
    let c = match dp_compile(&rel, &relations, None, w.privacy_unit(), params.clone()) {
        Outcome::Ok(c) => c,
        Outcome::Err(_) => {
            rep.count("dp_refused");
            return;
        }
        Outcome::Panic(_) => {
            rep.count("dp_panic");
            return;
        }
    };
    let (noises, taus) = mechanisms(&c.relation);
    let agg_noises: Vec<&NoiseNode> = noises.iter().filter(|n| n.columns.iter().any(|(c, _)| c != COUNT_DISTINCT_PID)).collect();
    if agg_noises.is_empty() {
        rep.count("no_noised_aggregate");
        return;
    }
    let rendered = match render(&c.relation) {
        Ok(s) => s,
        Err(_) => return,
    };
    let noise_names: HashSet<String> = noises.iter().map(|n| n.node.clone()).collect();
    let base = match run(w, &rendered, &noise_names, &HashMap::new()) {
        Ok(x) => x,
        Err(e) => {
            rep.count("execution_error");
            if rep.notes.len() < 6 {
                rep.notes.push(format!("execution error: {} on {}", e.chars().take(300).collect::<String>(), sql));
            }
            return;
        }
    };
    // released-key stages of the base run are pinned into the neighbouring runs
    let mut pin: HashMap<String, Rows> = HashMap::new();
    for t in taus.iter() {
        if let Some(rows) = base.stages.get(&t.node) {
            pin.insert(t.node.clone(), rows.clone());
        }
    }
    // so are the noised outputs: an aggregation that consumes the result of another DP aggregation is
    // measured given that earlier release (composition accounts for each level separately); the inputs
    // of the noise nodes, which are what is measured, are read before their outputs are pinned
    for n in agg_noises.iter() {
        if let Some(rows) = base.stages.get(&n.node) {
            pin.insert(n.node.clone(), rows.clone());
        }
    }
    // clipping bounds from the calibration events
    let bound_of = |n: &NoiseNode, col: &str| -> Option<f64> {
        c.events
            .iter()
            .find(|e| e.kind == "gaussian_mechanism" && e.str("relation") == Some(n.input.as_str()) && e.str("column") == Some(col))
            .and_then(|e| e.f64("bound"))
    };
    // neighbours: remove each unit in turn (row privacy: each row of `events`)
    let row_privacy = q.features.contains(&"row_privacy");
    let mut neighbours: Vec<(String, DpWorld)> = vec![];
    if row_privacy {
        let n = w.cat.table("events").unwrap().rows.len();
        for i in 0..n.min(6) {
            let mut w2 = w.clone();
            w2.cat.table_mut("events").unwrap().rows.remove(i);
            neighbours.push((format!("events row {}", i), w2));
        }
    } else {
        let mut units = w.units();
        r.shuffle(&mut units);
        for u in units.into_iter().take(6) {
            neighbours.push((format!("unit {}", u), w.without(&u)));
        }
        // one fresh unit added: D' is the larger database
        let mut w3 = w.clone();
        let new_id = 900;
        {
            let users = w3.cat.table_mut("users").unwrap();
            if let Some(first) = users.rows.first().cloned() {
                let mut row = first;
                row[0] = Value::integer(new_id);
                users.rows.push(row);
            }
            let orders = w3.cat.table_mut("orders").unwrap();
            let uidc = orders.col("user_id").unwrap();
            let idc = orders.col("id").unwrap();
            let templ: Vec<Vec<Value>> = orders.rows.iter().take(5).cloned().collect();
            for (k, mut row) in templ.into_iter().enumerate() {
                row[uidc] = Value::integer(new_id);
                row[idc] = Value::integer(90000 + k as i64);
                orders.rows.push(row);
            }
        }
        neighbours.push(("added unit 900".to_string(), w3));
    }
    let mut contributing = false;
    for (who, w2) in neighbours.iter() {
        let other = match run(w2, &rendered, &noise_names, &pin) {
            Ok(x) => x,
            Err(_) => {
                rep.count("execution_error_on_neighbour");
                continue;
            }
        };
        rep.eval();
        rep.count("neighbour_pairs");
        for n in agg_noises.iter() {
            let (a, b) = match (base.stages.get(&n.input), other.stages.get(&n.input)) {
                (Some(a), Some(b)) => (a, b),
                _ => continue,
            };
            for (col, sigma) in n.columns.iter() {
                if col == COUNT_DISTINCT_PID {
                    continue;
                }
                let bound = match bound_of(n, col) {
                    Some(b) => b,
                    None => continue,
                };
                let va = vector(a, col, &n.plain_columns);
                let vb = vector(b, col, &n.plain_columns);
                let keys: HashSet<&String> = va.keys().chain(vb.keys()).collect();
                let d2: f64 = keys.iter().map(|k| (va.get(*k).unwrap_or(&0.0) - vb.get(*k).unwrap_or(&0.0)).powi(2)).sum();
                let d = d2.sqrt();
                rep.count("column_differences_measured");
                if d > 1e-12 {
                    contributing = true;
                    rep.count("nonzero_differences");
                    if d > 0.5 * bound {
                        rep.count("differences_above_half_the_bound(clipping active)");
                    }
                }
                if d > bound * (1.0 + 1e-9) + 1e-9 {
                    rep.violation(
                        format!("C01|sensitivity-exceeds-bound|{}", q.features.first().cloned().unwrap_or("plain")),
                        format!("removing/adding {} changes the pre-noise column {} by {} in L2 norm over the groups, the noise (sigma {}) was calibrated for a bound of {}", who, col, d, sigma, bound),
                        json!({"catalog": w.cat.to_json(80), "query": sql, "dp_parameters": format!("{:?}", params), "neighbour": who, "column": col,
                               "bound": bound, "sigma": sigma, "difference": d, "rendered": rendered,
                               "pre_noise_on_D": a.to_json(40), "pre_noise_on_neighbour": b.to_json(40)}),
                    );
                    return;
                }
            }
        }
    }
    if contributing {
        rep.nontrivial(hash64(&(sql.clone(), format!("{:?}", params), w.cat.tables.iter().map(|t| t.rows.len()).collect::<Vec<_>>())));
    }
    rep.sample(|| json!({"query": sql, "dp_parameters": format!("{:?}", params), "neighbours": neighbours.len(),
        "noised_columns": agg_noises.iter().flat_map(|n| n.columns.iter().map(|(c, s)| json!([c, s]))).collect::<Vec<_>>()}));
}

pub fn run_monitor(p: &Params) -> Report {
    let mut rep = Report::for_params("C01", p);
    let pp = p.clone();
    drive(
        p.cases,
        &mut rep,
        &|i, rep| {
            let mut r = pp.rng(i);
            // databases built to hurt: units with far more rows than the multiplicity estimate
            let opts = DpWorldOptions {
                n_users: 3 + r.usize(6),
                max_orders_per_user: *r.pick(&[2usize, 6, 15]),
                max_items_per_order: 3,
                n_events: 2 + r.usize(8),
                dangling: r.bool(),
                nullable: true,
            };
            let mut w = gen_dp_world(&mut r, &opts);
            // values at the declared extremes most of the time
            if r.chance(2, 3) {
                let orders = w.cat.table_mut("orders").unwrap();
                let ai = orders.col("amount").unwrap();
                let (lo, hi) = match orders.cols[ai].inner() {
                    qrlew::data_type::DataType::Float(f) => (*f.min().unwrap(), *f.max().unwrap()),
                    _ => (0.0, 1.0),
                };
                for row in orders.rows.iter_mut() {
                    if !is_none(&row[ai]) {
                        row[ai] = Value::float(if r.chance(3, 4) { hi } else { lo });
                    }
                }
            }
            for _ in 0..2 {
                let q = gen_dp_query(&mut r, &w);
                if q.features.contains(&"having") {
                    continue;
                }
                // small multiplicity estimates so that clipping has to enforce the bound dynamically
                let params = DpParameters::new(
                    *r.pick(&[1.0, 10.0, 100.0, 400.0]),
                    *r.pick(&[1e-6, 1e-3, 0.05]),
                    0.5,
                    *r.pick(&[1.0, 2.0, 5.0]),
                    *r.pick(&[0.0001, 0.01, 1.0]),
                    *r.pick(&[1u64, 2, 5]),
                );
                check(&q, &w, &params, &mut r, rep);
            }
        },
        &|i, pi, rep| {
            rep.count("harness_level_panics");
            if rep.notes.len() < 8 {
                rep.notes.push(format!("panic in case {}: {} at {}", i, pi.message, pi.location));
            }
        },
    );
    rep
}
