//! C18 — compilation is total on the supported fragment: errors, never panics (nor unbounded work).
use crate::gen::catalog::*;
use crate::gen::sql::{gen_query, q};
use crate::gen::types::*;
use crate::util::*;
use qrlew::ast;
use qrlew::builder::With;
use qrlew::data_type::DataType;
use qrlew::differential_privacy::DpParameters;
use qrlew::hierarchy::Hierarchy;
use qrlew::privacy_unit_tracking::{PrivacyUnit, Strategy};
use qrlew::relation::{Relation, Variant as _};
use serde_json::json;
use std::sync::Arc;

/// hostile column types: extreme bounds, ranges containing / touching zero, zero width, many pieces
fn hostile_type(r: &mut Rng) -> DataType {
    let t = match r.below(14) {
        0 => DataType::integer(),
        1 => DataType::float(),
        2 => DataType::integer_interval(i64::MIN, i64::MAX),
        3 => DataType::float_interval(f64::MIN, f64::MAX),
        4 => DataType::integer_interval(-r.range(0, 5), r.range(0, 5)),
        5 => DataType::float_interval(-(r.range(0, 5) as f64), r.range(0, 5) as f64),
        6 => DataType::integer_value(*r.pick(&[0, 1, -1, i64::MAX, i64::MIN])),
        7 => DataType::float_value(*r.pick(&[0.0, -0.0, 1.0, f64::MAX, f64::MIN_POSITIVE])),
        8 => DataType::Integer(gen_integer(r)),
        9 => DataType::Float(gen_float(r)),
        10 => DataType::text(),
        11 => DataType::Text(gen_text(r)),
        12 => DataType::boolean(),
        _ => DataType::integer_interval(1000, 9_000_000_000_000_000_000),
    };
    if r.chance(1, 3) {
        DataType::optional(t)
    } else {
        t
    }
}

fn hostile_catalog(r: &mut Rng) -> Catalog {
    let nt = 2 + r.usize(2);
    let mut cat = Catalog { tables: vec![], rel_prefix: String::new() };
    for ti in 0..nt {
        let mut cols = vec![ColDef::new("id", DataType::integer_interval(1, 200)).unique()];
        if ti > 0 {
            cols.push(ColDef::new("ref", DataType::integer_interval(1, 200)).refs("t0", "id"));
        }
        // one catalogue in five has only unbounded numeric columns (sums and products reach the ends of the domain)
        let unbounded = r.chance(1, 5);
        for name in ["a", "b", "c", "d"].iter().take(2 + r.usize(3)) {
            let ty = if unbounded {
                let t = match r.below(4) {
                    0 | 1 => DataType::float(),
                    2 => DataType::integer(),
                    _ => DataType::float_interval(f64::MIN, f64::MAX),
                };
                if r.chance(1, 4) { DataType::optional(t) } else { t }
            } else {
                hostile_type(r)
            };
            cols.push(ColDef::new(name, ty));
        }
        let size = match r.below(5) {
            0 => (0, 0),
            1 => (0, i64::MAX),
            2 => (i64::MAX, i64::MAX),
            3 => (1, 1),
            _ => (0, 1000),
        };
        cat.tables.push(TableDef { name: format!("t{}", ti), cols, size, rows: vec![] });
    }
    cat
}

const UNARY_NUM: &[&str] = &["exp", "ln", "log", "log2", "log10", "abs", "sin", "cos", "tan", "sqrt", "square", "sign", "ceil", "floor", "degrees", "md5", "char_length", "lower", "upper", "unhex", "dayname", "quarter", "date", "unix_timestamp"];
const BINARY: &[&str] = &["pow", "power", "round", "trunc", "greatest", "least", "concat", "substr", "ltrim", "rtrim", "btrim", "regexp_contains", "encode", "decode", "date_format", "from_unixtime", "coalesce", "position_of"];

thread_local! {
    /// which arithmetic operator sits inside the aggregate of the last generated query (signature material:
    /// a range that leaves the domain is one defect per operator, not one defect for all of them)
    static AGG_OP: std::cell::RefCell<String> = std::cell::RefCell::new(String::new());
}

/// Grammar 1: supported constructs with the full function set
fn supported_query(r: &mut Rng, cat: &Catalog) -> String {
    AGG_OP.with(|t| t.borrow_mut().clear());
    let t = r.pick(&cat.tables);
    let c1 = &r.pick(&t.cols).name;
    let c2 = &r.pick(&t.cols).name;
    let c3 = &r.pick(&t.cols).name;
    let lit = || -> String { "0".into() };
    let _ = lit;
    let num_lit = *r.pick(&["0", "1", "-1", "2", "0.5", "1e10", "9223372036854775807", "-9223372036854775808", "0.0"]);
    match r.below(42) {
        // two aggregating sub-queries joined: under DP both sides are rewritten and the join above them is rebuilt
        // over inputs whose types changed (its field names must survive, cf. fix 175b89a)
        40 | 41 => {
            let a1 = *r.pick(&["SUM", "COUNT", "AVG"]);
            let a2 = *r.pick(&["SUM", "COUNT", "AVG"]);
            let on = if r.bool() { "CROSS JOIN b".to_string() } else { "JOIN b ON a.sx <= b.sy".to_string() };
            format!(
                "WITH a AS (SELECT 2 * {}({}) AS sx FROM {t}), b AS (SELECT 2 * {}({}) AS sy FROM {t}) SELECT * FROM a {}",
                a1, q(c1), a2, q(c2), on, t = t.name
            )
        }
        // no FROM clause, chains of set operations, extreme LIMIT / OFFSET
        36 => format!("SELECT {} AS x", num_lit),
        37 => format!("SELECT {c} FROM {t} UNION SELECT {c} FROM {t} UNION ALL SELECT {c} FROM {t}", c = q(c1), t = t.name),
        38 => format!("SELECT {c} FROM {t} EXCEPT SELECT {c} FROM {t} INTERSECT SELECT {c} FROM {t}", c = q(c1), t = t.name),
        39 => format!("SELECT {} FROM {} LIMIT {} OFFSET {}", q(c1), t.name, r.pick(&["18446744073709551615", "9223372036854775807", "9223372036854775808"]), r.pick(&["0", "9223372036854775807", "18446744073709551615"])),
        // bare columns next to aggregates (read as FIRST(column)): with and without being grouping keys
        34 => format!("SELECT {}, SUM({}) AS s FROM {}", q(c1), q(c2), t.name),
        35 => format!("SELECT {}, {}, SUM({}) AS s, COUNT(*) AS n FROM {} GROUP BY {}", q(c1), q(c2), q(c3), t.name, q(c1)),
        30 | 31 => {
            // aggregates of arithmetic over (possibly unbounded) columns: the range arithmetic must stay inside the domain
            let op = *r.pick(&["+", "-", "*", "/"]);
            let agg = *r.pick(&["SUM", "AVG", "VARIANCE", "STDDEV", "MIN", "MAX"]);
            AGG_OP.with(|t| *t.borrow_mut() = format!("|aggregate of x {} y", op));
            format!("SELECT {}({} {} {}) AS s, COUNT(*) AS n FROM {}", agg, q(c1), op, q(c2), t.name)
        }
        32 | 33 => {
            // every function name the reader knows, with 0 to 4 arguments: too few or too many is an error, never a panic
            const NAMES: &[&str] = &[
                "abs", "btrim", "char_length", "choose", "coalesce", "concat", "cos", "current_date", "current_time", "current_timestamp", "date_format",
                "datetime_diff", "decode", "degrees", "encode", "exp", "from_hex", "greatest", "least", "ln", "log", "log10", "log2", "lower", "ltrim",
                "md5", "newid", "pi", "pow", "power", "rand", "random", "regexp_contains", "regexp_extract", "regexp_replace", "regexp_substr", "round",
                "rtrim", "sign", "sin", "sqrt", "square", "substr", "tan", "trunc", "truncate", "unhex", "unix_timestamp", "upper", "avg", "count", "date",
                "dayname", "from_unixtime", "max", "min", "quarter", "stddev", "sum", "variance",
            ];
            let f = *r.pick(NAMES);
            let n = r.usize(5);
            let args: Vec<String> = (0..n)
                .map(|_| match r.below(4) {
                    0 => "'a'".to_string(),
                    1 => num_lit.to_string(),
                    _ => q(&r.pick(&t.cols).name),
                })
                .collect();
            format!("SELECT {}({}) AS x FROM {}", f, args.join(", "), t.name)
        }
        0 => format!("SELECT {} / {} AS x FROM {}", q(c1), q(c2), t.name),
        1 => format!("SELECT {} % {} AS x FROM {}", q(c1), q(c2), t.name),
        2 => format!("SELECT {} / {} AS x, {} * {} AS y FROM {}", q(c1), q(c1), q(c1), q(c2), t.name),
        3 => format!("SELECT {}({}) AS x FROM {}", r.pick(UNARY_NUM), q(c1), t.name),
        4 => {
            let f = *r.pick(BINARY);
            if f == "position_of" {
                format!("SELECT POSITION({} IN {}) AS x FROM {}", q(c1), q(c2), t.name)
            } else {
                format!("SELECT {}({}, {}) AS x FROM {}", f, q(c1), q(c2), t.name)
            }
        }
        5 => format!("SELECT CAST({} AS {}) AS x FROM {}", q(c1), r.pick(&["FLOAT", "INTEGER", "TEXT", "BOOLEAN", "DATE", "TIMESTAMP", "TIME", "VARCHAR"]), t.name),
        6 => format!("SELECT {} + {} AS x, {} - {} AS y, - {} AS z FROM {}", q(c1), num_lit, q(c2), num_lit, q(c3), t.name),
        7 => format!("SELECT SUM({}) AS s, AVG({}) AS a, COUNT({}) AS n, MIN({}) AS lo, MAX({}) AS hi, VARIANCE({}) AS v, STDDEV({}) AS sd FROM {}", q(c1), q(c1), q(c2), q(c1), q(c2), q(c1), q(c2), t.name),
        8 => {
            AGG_OP.with(|t| *t.borrow_mut() = "|aggregate of x * y".to_string());
            format!("SELECT {} AS k, SUM({} * {}) AS s FROM {} GROUP BY {}", q(c1), q(c2), q(c3), t.name, q(c1))
        }
        9 => format!("SELECT * FROM {} WHERE {} > {} AND {} IN ({}, 1, 2) OR NOT ({} <= {})", t.name, q(c1), num_lit, q(c2), num_lit, q(c3), num_lit),
        10 => format!("SELECT CASE WHEN {} > {} THEN {} ELSE {} END AS x FROM {}", q(c1), num_lit, q(c2), q(c3), t.name),
        11 => format!("SELECT CASE {} WHEN {} THEN 'a' WHEN 1 THEN 'b' ELSE 'c' END AS x FROM {}", q(c1), num_lit, t.name),
        12 => format!("SELECT {} BETWEEN {} AND {} AS x, {} IS NULL AS y, {} IS NOT NULL AS z FROM {}", q(c1), num_lit, q(c2), q(c2), q(c3), t.name),
        13 => format!("SELECT {} || {} AS x, {} LIKE 'a%' AS y FROM {}", q(c1), q(c2), q(c3), t.name),
        14 => format!("SELECT EXTRACT(YEAR FROM {}) AS x, EXTRACT(EPOCH FROM {}) AS y FROM {}", q(c1), q(c2), t.name),
        15 => format!("SELECT SUBSTRING({} FROM 1 FOR 2) AS x, TRIM({}) AS y, CEIL({}) AS z, FLOOR({}) AS w FROM {}", q(c1), q(c2), q(c3), q(c1), t.name),
        16 => format!("SELECT COUNT(DISTINCT {}) AS n, SUM(DISTINCT {}) AS s FROM {} GROUP BY {} HAVING COUNT(*) > {}", q(c1), q(c2), t.name, q(c3), num_lit),
        17 => format!("SELECT a.{} AS x FROM {} AS a JOIN {} AS b ON a.id = b.id AND a.{} > b.{}", q(c1), t.name, t.name, q(c2), q(c3)),
        18 => format!("SELECT {} FROM {} ORDER BY {} DESC LIMIT {} OFFSET {}", q(c1), t.name, q(c2), r.pick(&["0", "1", "1000000000000"]), r.pick(&["0", "5"])),
        19 => format!("SELECT {c} FROM {t} UNION SELECT {c} FROM {t}", c = q(c1), t = t.name),
        20 => format!("SELECT DISTINCT {}, {} FROM {}", q(c1), q(c2), t.name),
        21 => format!("WITH w AS (SELECT {} AS x FROM {}) SELECT SUM(x) AS s FROM w WHERE x <> {}", q(c1), t.name, num_lit),
        22 => format!("SELECT ({} + {}) * ({} - {}) / ({} + 1) AS x FROM {}", q(c1), q(c2), q(c1), q(c2), q(c3), t.name),
        23 => format!("SELECT {} & {} AS x, {} | {} AS y FROM {}", q(c1), q(c2), q(c1), q(c3), t.name),
        24 => format!("SELECT RANDOM() AS x, PI() AS p, NEWID() AS n FROM {}", t.name),
        25 => format!("SELECT regexp_replace({}, 'a', 'b') AS x, regexp_extract({}, 'a', 0, 1) AS y FROM {}", q(c1), q(c2), t.name),
        26 => format!("SELECT choose(2, 'a', 'b', 'c') AS x, datetime_diff({}, {}, 'DAY') AS y FROM {}", q(c1), q(c2), t.name),
        27 => format!("SELECT {} AS x FROM {} WHERE {} = {} OR {} <> {}", q(c1), t.name, q(c1), q(c2), q(c2), q(c3)),
        _ => gen_query(r, cat).sql,
    }
}

/// Grammar 2: syntactically valid but unsupported: the required outcome is an error value
fn unsupported_query(r: &mut Rng, cat: &Catalog) -> String {
    let t = r.pick(&cat.tables);
    let c1 = &r.pick(&t.cols).name;
    match r.below(14) {
        0 => format!("SELECT {}.* FROM {}", t.name, t.name),
        1 => format!("SELECT frobnicate({}) AS x FROM {}", q(c1), t.name),
        2 => format!("SELECT {}, COUNT(*) FROM {} GROUP BY ALL", q(c1), t.name),
        3 => format!("SELECT SUM({}) OVER (PARTITION BY id) AS x FROM {}", q(c1), t.name),
        4 => format!("SELECT pow({}) AS x FROM {}", q(c1), t.name),
        5 => format!("SELECT {} FROM {} a, {} b", q(c1), t.name, t.name),
        6 => format!("SELECT * FROM {} WHERE id IN (SELECT id FROM {})", t.name, t.name),
        7 => format!("SELECT * FROM {} WHERE EXISTS (SELECT 1 FROM {})", t.name, t.name),
        8 => format!("SELECT round() AS x FROM {}", t.name),
        9 => format!("SELECT {} FROM {} LIMIT {}", q(c1), t.name, q(c1)),
        10 => format!("SELECT substr({}) AS x FROM {}", q(c1), t.name),
        11 => format!("SELECT {} FROM nonexistent_table", q(c1)),
        12 => format!("SELECT no_such_column FROM {}", t.name),
        _ => format!("SELECT ARRAY[1, 2] AS x, {} FROM {}", q(c1), t.name),
    }
}

fn dp_params(r: &mut Rng) -> DpParameters {
    let mut p = crate::gen::dpsql::gen_dp_parameters(r);
    match r.below(8) {
        0 => p.epsilon = 0.0,
        1 => p.delta = 0.0,
        2 => p.tau_thresholding_share = 0.0,
        3 => p.tau_thresholding_share = 1.0,
        4 => p.max_privacy_unit_groups = u64::MAX,
        5 => p.privacy_unit_max_multiplicity = 0.0,
        _ => {}
    }
    p
}

fn stage<T>(
    name: &str,
    grammar: &str,
    sql: &str,
    cat: &Catalog,
    rep: &mut Report,
    f: impl FnOnce() -> Result<T, String>,
) -> Option<T> {
    rep.eval();
    rep.count(&format!("calls:{}", name));
    match guarded(f) {
        Ok(Ok(v)) => {
            rep.count(&format!("ok:{}:{}", name, grammar));
            Some(v)
        }
        Ok(Err(_)) => {
            rep.count(&format!("err:{}:{}", name, grammar));
            None
        }
        Err(p) => {
            let kind = if p.budget { "work-budget-exceeded" } else { "panic" };
            rep.violation(
                format!("C18|{}|{}|{}|{}", name, kind, p.file, normalise_message(&p.message)),
                format!("{} on a {} query: {} at {}", kind, grammar, p.message.lines().next().unwrap_or(""), p.location),
                json!({"catalog": cat.to_json(0), "query": sql, "grammar": grammar, "stage": name}),
            );
            None
        }
    }
}

pub fn run(p: &Params) -> Report {
    let mut rep = Report::for_params("C18", p);
    let pp = p.clone();
    drive(
        p.cases,
        &mut rep,
        &|i, rep| {
            let mut r = pp.rng(i);
            let cat = if r.chance(3, 4) { hostile_catalog(&mut r) } else { gen_generic(&mut r, 0) };
            let relations: Hierarchy<Arc<Relation>> = match guarded(|| cat.relations()) {
                Ok(x) => x,
                Err(_) => {
                    rep.count("catalogue_not_buildable");
                    return;
                }
            };
            for _ in 0..4 {
                let supported = r.chance(3, 4);
                let grammar = if supported { "supported" } else { "unsupported" };
                let sql = if supported {
                    supported_query(&mut r, &cat)
                } else {
                    AGG_OP.with(|t| t.borrow_mut().clear());
                    unsupported_query(&mut r, &cat)
                };
                write_inflight(&pp.inflight, &json!({"query": sql, "catalog": cat.to_json(0), "signature_hint": "process died while compiling"}));
                rep.nontrivial(hash64(&(sql.clone(), format!("{:?}", cat.tables.iter().map(|t| t.cols.iter().map(|c| c.ty.to_string()).collect::<Vec<_>>()).collect::<Vec<_>>()))));
                let rel = stage("parse", grammar, &sql, &cat, rep, || {
                    let query = qrlew::sql::parse(&sql).map_err(|e| e.to_string())?;
                    Relation::try_from(query.with(&relations)).map_err(|e| e.to_string())
                });
                let rel = match rel {
                    Some(r) => r,
                    None => continue,
                };
                if !supported {
                    rep.count("unsupported_construct_accepted");
                }
                stage("schema", grammar, &sql, &cat, rep, || {
                    let _ = rel.schema().to_string();
                    let _ = rel.size().to_string();
                    Ok::<(), String>(())
                });
                stage("render", grammar, &sql, &cat, rep, || Ok::<String, String>(ast::Query::from(&rel).to_string()));
                // row privacy on every table
                let names: Vec<String> = cat.tables.iter().map(|t| t.name.clone()).collect();
                let pu = PrivacyUnit::from((
                    names.iter().map(|n| (n.as_str(), vec![], PrivacyUnit::privacy_unit_row())).collect::<Vec<_>>(),
                    r.bool(),
                ));
                let params = dp_params(&mut r);
                let strategy = if r.bool() { Strategy::Hard } else { Strategy::Soft };
                stage("pup_rewriting", grammar, &sql, &cat, rep, || {
                    rel.rewrite_as_privacy_unit_preserving(&relations, None, pu.clone(), params.clone(), Some(strategy))
                        .map(|r| r.relation().name().to_string())
                        .map_err(|e| e.to_string())
                });
                stage("dp_rewriting", grammar, &sql, &cat, rep, || {
                    rel.rewrite_with_differential_privacy(&relations, None, pu.clone(), params.clone())
                        .map(|r| ast::Query::from(r.relation()).to_string())
                        .map_err(|e| e.to_string())
                });
            }
            write_inflight(&pp.inflight, &json!(null));
        },
        &|i, pi, rep| {
            rep.count("harness_level_panics");
            if rep.notes.len() < 8 {
                rep.notes.push(format!("panic in case {}: {} at {}", i, pi.message, pi.location));
            }
        },
    );
    rep
}
