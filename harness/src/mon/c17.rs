//! C17 — dialect translation emits valid target-dialect SQL with the same meaning.
use crate::exec::sqlite::{Db, RandomMode};
use crate::gen::catalog::*;
use crate::gen::dpsql::*;
use crate::gen::sql::gen_query;
use crate::mon::dpq::*;
use crate::mon::execq::{compile, Compiled};
use crate::util::*;
use qrlew::ast;
use qrlew::data_type::{DataType, DataTyped};
use qrlew::dialect_translation::{
    bigquery::BigQueryTranslator, databricks::DatabricksTranslator, hive::HiveTranslator, mssql::MsSqlTranslator, mysql::MySqlTranslator,
    postgresql::PostgreSqlTranslator, redshiftsql::RedshiftSqlTranslator, sqlite::SQLiteTranslator, QueryToRelationTranslator,
    RelationToQueryTranslator, RelationWithTranslator,
};
use qrlew::hierarchy::Hierarchy;
use qrlew::relation::{Constraint, Relation, Variant as _};
use qrlew::sql::relation::QueryWithRelations;
use serde_json::json;
use std::sync::Arc;

fn schema_sig(r: &Relation) -> Vec<(String, String)> {
    r.schema().iter().map(|f| (f.name().to_string(), f.data_type().to_string())).collect()
}

fn err_class(e: &str) -> String {
    let first = e.lines().next().unwrap_or("");
    // panic messages of the form: called `Result::unwrap()` on an `Err` value: Kind("text")
    if let Some(pos) = first.find("value: ") {
        let inner = &first[pos + 7..];
        let inner = inner.replace("(\"", ": ").replace("\")", "");
        let inner = inner.split('`').next().unwrap_or(&inner).to_string();
        if let Some(p) = inner.find("Unknown table") {
            // the table name is a generated one (set_xxxx)
            return format!("{}Unknown table <name>", &inner[..p]);
        }
        if let Some(p) = inner.find("InvalidRelation") {
            // the message names generated columns
            return format!("{}InvalidRelation: <column> is unknown or ambiguous", &inner[..p]);
        }
        if let Some(p) = inner.find("InvalidExpression") {
            return format!("{}InvalidExpression: <column> is invalid", &inner[..p]);
        }
        return normalise_message(&inner.replace('"', "")).trim().chars().take(70).collect();
    }
    let cut = first.split(" at Line").next().unwrap_or(first);
    // names of the failing input (quoted or back-quoted) are not part of the class
    let cut = cut.split('`').next().unwrap_or(cut);
    let cut = cut.split('"').next().unwrap_or(cut);
    let cut = cut.split("found:").next().unwrap_or(cut);
    normalise_message(cut).trim().chars().take(80).collect()
}

fn one_dialect<T: RelationToQueryTranslator + QueryToRelationTranslator + Copy>(
    name: &str,
    t: T,
    rel: &Relation,
    relations: &Hierarchy<Arc<Relation>>,
    origin: &str,
    what: &serde_json::Value,
    rep: &mut Report,
) -> Option<String> {
    rep.eval();
    rep.count(&format!("translated:{}", name));
    let text = match guarded(|| ast::Query::from(RelationWithTranslator(rel, t)).to_string()) {
        Ok(s) => s,
        Err(p) => {
            rep.violation(
                format!("C17|{}|render-panic|{}|{}", name, p.file, normalise_message(&p.message)),
                format!("translating to {} panics: {} at {}", name, p.message, p.location),
                json!({"origin": origin, "input": what, "relation": rel.to_string()}),
            );
            return None;
        }
    };
    // (1) the dialect's own parser accepts the text
    let parsed = match guarded(|| qrlew::sql::relation::parse_with_dialect(&text, t.dialect())) {
        Ok(Ok(q)) => q,
        Ok(Err(e)) => {
            rep.violation(
                format!("C17|{}|rejected-by-the-dialect-parser|{}", name, err_class(&e.to_string())),
                format!("{} parser rejects the translated query: {}", name, e.to_string().lines().next().unwrap_or("")),
                json!({"origin": origin, "input": what, "translated": text}),
            );
            return Some(text);
        }
        Err(p) => {
            rep.count(&format!("parser_panic:{}", name));
            let _ = p;
            return Some(text);
        }
    };
    rep.count(&format!("parsed:{}", name));
    // (2) reading it back yields the same output schema
    match guarded(|| Relation::try_from((QueryWithRelations::new(&parsed, relations), t)).map_err(|e| e.to_string())) {
        Ok(Ok(back)) => {
            rep.count(&format!("read_back:{}", name));
            let (a, b) = (schema_sig(rel), schema_sig(&back));
            let names_a: Vec<&String> = a.iter().map(|x| &x.0).collect();
            let names_b: Vec<&String> = b.iter().map(|x| &x.0).collect();
            if names_a != names_b {
                rep.violation(
                    format!("C17|{}|read-back-names-differ|{}", name, origin),
                    format!("columns {:?} became {:?} after reading the {} text back", names_a, names_b, name),
                    json!({"origin": origin, "input": what, "translated": text}),
                );
            } else if a != b {
                let diff = a.iter().zip(b.iter()).find(|(x, y)| x != y).map(|(x, y)| format!("{}: {} -> {}", x.0, x.1, y.1)).unwrap_or_default();
                // widening is tolerated (read-back re-derives ranges); a narrower or different variant is not
                let narrower = rel.schema().iter().zip(back.schema().iter()).any(|(x, y)| {
                    let (tx, ty): (DataType, DataType) = (x.data_type(), y.data_type());
                    use qrlew::data_type::Variant as _;
                    !tx.is_subset_of(&ty)
                });
                if narrower {
                    rep.violation(
                        format!("C17|{}|read-back-type-not-a-superset|{}", name, origin),
                        format!("after reading the {} text back a column type no longer contains the original one ({})", name, diff),
                        json!({"origin": origin, "input": what, "translated": text, "original_schema": a, "read_back_schema": b}),
                    );
                } else {
                    rep.count(&format!("read_back_types_wider:{}", name));
                }
            }
        }
        Ok(Err(e)) => {
            rep.violation(
                format!("C17|{}|read-back-fails|{}", name, err_class(&e)),
                format!("the library cannot read its own {} output: {}", name, e.lines().next().unwrap_or("")),
                json!({"origin": origin, "input": what, "translated": text}),
            );
        }
        Err(p) => {
            rep.violation(
                format!("C17|{}|read-back-panics|{}|{}", name, p.file, err_class(&p.message)),
                format!("reading the {} output back panics: {} at {}", name, p.message, p.location),
                json!({"origin": origin, "input": what, "translated": text}),
            );
        }
    }
    Some(text)
}

fn all_dialects(rel: &Relation, relations: &Hierarchy<Arc<Relation>>, origin: &str, what: &serde_json::Value, cat: Option<&Catalog>, rep: &mut Report) {
    let pg = one_dialect("postgresql", PostgreSqlTranslator, rel, relations, origin, what, rep);
    one_dialect("mysql", MySqlTranslator, rel, relations, origin, what, rep);
    one_dialect("mssql", MsSqlTranslator, rel, relations, origin, what, rep);
    one_dialect("bigquery", BigQueryTranslator, rel, relations, origin, what, rep);
    one_dialect("hive", HiveTranslator, rel, relations, origin, what, rep);
    one_dialect("databricks", DatabricksTranslator, rel, relations, origin, what, rep);
    one_dialect("redshift", RedshiftSqlTranslator, rel, relations, origin, what, rep);
    // SQLite: no reader; parser acceptance + execution on a plain connection
    rep.eval();
    rep.count("translated:sqlite");
    let lite = match guarded(|| ast::Query::from(RelationWithTranslator(rel, SQLiteTranslator)).to_string()) {
        Ok(s) => s,
        Err(p) => {
            rep.violation(
                format!("C17|sqlite|render-panic|{}|{}", p.file, normalise_message(&p.message)),
                format!("translating to sqlite panics: {}", p.message),
                json!({"origin": origin, "input": what}),
            );
            return;
        }
    };
    let dialect = sqlparser::dialect::SQLiteDialect {};
    if let Err(e) = sqlparser::parser::Parser::parse_sql(&dialect, &lite) {
        rep.violation(
            format!("C17|sqlite|rejected-by-the-dialect-parser|{}", err_class(&e.to_string())),
            format!("sqlite parser rejects the translated query: {}", e),
            json!({"origin": origin, "input": what, "translated": lite}),
        );
        return;
    }
    rep.count("parsed:sqlite");
    if let (Some(cat), Some(pg)) = (cat, pg) {
        // reference: PostgreSQL rendering on the compatibility connection; subject: SQLite rendering on a plain one
        let reference = {
            let db = Db::new(true, RandomMode::Const(0.5));
            match cat.load(&db).map_err(|e| e.to_string()).and_then(|_| db.run_rendered(&pg)) {
                Ok(r) => Some(r),
                Err(e) => {
                    // structural errors do not depend on the engine's function set: the text is invalid in every dialect
                    let class = if e.contains("duplicate WITH table name") {
                        Some(crate::mon::c08::duplicate_cte_class(&pg).to_string())
                    } else if e.contains("no such column") {
                        Some("no such column".to_string())
                    } else if e.contains("no such table") {
                        Some("no such table".to_string())
                    } else {
                        None
                    };
                    if let Some(class) = class {
                        rep.violation(
                            format!("C17|postgresql|rejected-by-the-engine|{}", class),
                            format!("the reference (PostgreSQL) rendering is structurally invalid: {}", e.chars().take(200).collect::<String>()),
                            json!({"origin": origin, "input": what, "translated": pg}),
                        );
                    }
                    None
                }
            }
        };
        let plain = Db::new(false, RandomMode::Const(0.5));
        if cat.load(&plain).is_err() {
            return;
        }
        if let Some(reference) = reference {
            rep.count("sqlite_executions");
            match plain.run_rendered(&lite) {
                Ok(got) => {
                    if reference.multiset() != got.multiset() {
                        rep.violation(
                            format!("C17|sqlite|results-differ|{}", origin),
                            format!("the SQLite translation returns other rows ({}) than the reference rendering ({})", got.rows.len(), reference.rows.len()),
                            json!({"origin": origin, "input": what, "translated": lite, "reference": pg, "catalog": cat.to_json(10)}),
                        );
                    }
                }
                Err(e) => {
                    rep.violation(
                        format!("C17|sqlite|rejected-by-the-engine|{}", if e.contains("duplicate WITH table name") { crate::mon::c08::duplicate_cte_class(&lite).to_string() } else { err_class(&e) }),
                        format!("SQLite itself rejects the SQLite translation: {}", e.chars().take(200).collect::<String>()),
                        json!({"origin": origin, "input": what, "translated": lite}),
                    );
                }
            }
        }
    }
}

/// catalogue whose names need quoting
fn special_catalog(r: &mut Rng) -> Catalog {
    let tnames = ["order", "my table", "Mixed Case", "select", "t.dot", "quo\"te", "user"];
    let cnames = ["group", "my col", "from", "a.b", "Upper", "x\"y", "select", "key", "table"];
    let mut cat = Catalog { tables: vec![], rel_prefix: String::new() };
    let mut tn = tnames.to_vec();
    r.shuffle(&mut tn);
    for t in tn.into_iter().take(2) {
        let mut cn = cnames.to_vec();
        r.shuffle(&mut cn);
        let mut cols = vec![ColDef::new("id", DataType::integer_interval(1, 100))];
        cols[0].constraint = Some(Constraint::Unique);
        for c in cn.into_iter().take(3) {
            cols.push(ColDef::new(c, if r.bool() { DataType::integer_interval(0, 10) } else { DataType::text_values(["a".to_string(), "b".to_string()]) }));
        }
        let mut td = TableDef { name: t.to_string(), cols, size: (0, 20), rows: vec![] };
        td.rows = gen_rows(r, &cat, &td.cols.clone(), 4);
        cat.tables.push(td);
    }
    cat
}

fn qd(s: &str) -> String {
    format!("\"{}\"", s.replace('"', "\"\""))
}

pub fn run(p: &Params) -> Report {
    let mut rep = Report::for_params("C17", p);
    let pp = p.clone();
    drive(
        p.cases,
        &mut rep,
        &|i, rep| {
            let mut r = pp.rng(i);
            match i % 4 {
                0 | 1 => {
                    let cat = gen_generic(&mut r, 8);
                    let relations = cat.relations();
                    for _ in 0..2 {
                        let g = gen_query(&mut r, &cat);
                        if let Compiled::Ok(rel) = compile(&g.sql, &relations) {
                            rep.nontrivial(hash64(&g.sql));
                            all_dialects(&rel, &relations, "generated query", &json!({"query": g.sql}), Some(&cat), rep);
                            // the one dialect with an engine: the translation must also agree with the original query
                            // (the reference rendering shares the relation-to-query visitor with every translator)
                            crate::mon::c08::check_case_with(&cat, &g, rep, "C17|sqlite-vs-original-query", true);
                            rep.sample(|| json!({"query": g.sql, "dialects": 8}));
                        }
                    }
                }
                2 => {
                    // DP-rewritten relations
                    let opts = crate::mon::c03::world_options(&mut r);
                    let w = gen_dp_world(&mut r, &opts);
                    let relations = w.cat.relations();
                    let q = gen_dp_query(&mut r, &w);
                    if let Compiled::Ok(rel) = compile(&q.sql, &relations) {
                        let params = gen_dp_parameters(&mut r);
                        if let Outcome::Ok(c) = dp_compile(&rel, &relations, None, w.privacy_unit(), params) {
                            rep.nontrivial(hash64(&q.sql));
                            rep.count("dp_rewritten_relations");
                            all_dialects(&c.relation, &relations, "dp rewriting", &json!({"query": q.sql}), None, rep);
                        }
                    }
                }
                _ => {
                    // reserved words, spaces, quotes and dots in names
                    let cat = special_catalog(&mut r);
                    let relations = cat.relations();
                    let t = &cat.tables[0];
                    let t2 = &cat.tables[1];
                    let c1 = &t.cols[1 + r.usize(t.cols.len() - 1)].name;
                    let c2 = &t.cols[1 + r.usize(t.cols.len() - 1)].name;
                    let sql = match r.below(4) {
                        0 => format!("SELECT {}, {} FROM {}", qd(c1), qd("id"), qd(&t.name)),
                        1 => format!("SELECT {} AS {}, COUNT(*) AS \"Count Of\" FROM {} GROUP BY {}", qd(c1), qd("my alias"), qd(&t.name), qd(c1)),
                        2 => format!("SELECT a.{} FROM {} AS a JOIN {} AS b ON a.id = b.id WHERE a.{} IS NOT NULL", qd(c1), qd(&t.name), qd(&t2.name), qd(c2)),
                        _ => format!("SELECT * FROM {}", qd(&t.name)),
                    };
                    match compile(&sql, &relations) {
                        Compiled::Ok(rel) => {
                            rep.nontrivial(hash64(&sql));
                            rep.count("special_name_relations");
                            all_dialects(&rel, &relations, "special names", &json!({"query": sql}), None, rep);
                        }
                        Compiled::Err(_) => rep.count("special_names:compile_error"),
                        Compiled::Panic(_) => rep.count("special_names:compile_panic"),
                    }
                }
            }
        },
        &|i, pi, rep| {
            rep.count("harness_level_panics");
            if rep.notes.len() < 8 {
                rep.notes.push(format!("panic in case {}: {} at {}", i, pi.message, pi.location));
            }
        },
    );
    rep
}
