pub mod c06;
pub mod c07;
pub mod c08;
pub mod c10;
pub mod c11;
pub mod c12;
pub mod c15;
pub mod execq;
