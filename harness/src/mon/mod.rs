pub mod c06;
pub mod c11;
