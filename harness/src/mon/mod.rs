pub mod c11;
