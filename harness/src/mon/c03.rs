//! C03 — privacy loss is never under-reported; each DP aggregation fits its budget.
use crate::gen::catalog::*;
use crate::gen::dpsql::*;
use crate::mon::dpq::*;
use crate::mon::execq::{compile, Compiled};
use crate::util::*;
use qrlew::differential_privacy::group_by::COUNT_DISTINCT_PID;
use qrlew::differential_privacy::{DpEvent, DpParameters};
use qrlew::verif_hooks::Event;
use serde_json::json;

const REL: f64 = 1e-9;

pub fn world_options(r: &mut Rng) -> DpWorldOptions {
    DpWorldOptions {
        n_users: 2 + r.usize(6),
        max_orders_per_user: 3,
        max_items_per_order: 2,
        n_events: r.usize(8),
        dangling: r.bool(),
        nullable: true,
    }
}

fn params_json(p: &DpParameters) -> serde_json::Value {
    json!({"epsilon": p.epsilon, "delta": p.delta, "tau_thresholding_share": p.tau_thresholding_share,
           "privacy_unit_max_multiplicity": p.privacy_unit_max_multiplicity,
           "privacy_unit_max_multiplicity_share": p.privacy_unit_max_multiplicity_share,
           "max_privacy_unit_groups": p.max_privacy_unit_groups})
}

fn events_json(ev: &[Event]) -> serde_json::Value {
    json!(ev
        .iter()
        .filter(|e| e.kind != "rewrite_node" && e.kind != "namer_count")
        .map(|e| json!({"kind": e.kind, "fields": e.fields.iter().map(|(k, v)| json!([k, format!("{:?}", v)])).collect::<Vec<_>>()}))
        .collect::<Vec<_>>())
}

pub fn check(sql: &str, w: &DpWorld, params: &DpParameters, with_sd: bool, feats: &[&'static str], rep: &mut Report) {
    let relations = w.cat.relations();
    let rel = match compile(sql, &relations) {
        Compiled::Ok(r) => r,
        Compiled::Err(_) => {
            rep.count("parse_error");
            return;
        }
        Compiled::Panic(_) => {
            rep.count("parse_panic");
            return;
        }
    };
    let sd = if with_sd { Some(synthetic_data(w)) } else { None };
    let c = match dp_compile(&rel, &relations, sd, w.privacy_unit(), params.clone()) {
        Outcome::Ok(c) => c,
        Outcome::Err(e) => {
            rep.count(if e.contains("unreachable") || e.contains("Unreachable") { "dp_unreachable" } else { "dp_error" });
            return;
        }
        Outcome::Panic(p) => {
            rep.count("dp_panic");
            if rep.notes.len() < 6 {
                rep.notes.push(format!("dp rewriting panics on {}: {} at {}", sql, p.message, p.location));
            }
            return;
        }
    };
    rep.eval();
    rep.count("dp_compiled");
    for f in feats {
        rep.count(&format!("feature:{}", f));
    }
    let (noises, taus) = mechanisms(&c.relation);
    let mut entries = vec![];
    flatten(&c.dp_event, &mut entries);
    let case = || {
        json!({"query": sql, "dp_parameters": params_json(params), "synthetic_data": with_sd,
               "dp_event": format!("{:?}", c.dp_event),
               "noise_nodes_in_ir": noises.iter().map(|n| json!({"node": n.node, "input": n.input, "columns": n.columns})).collect::<Vec<_>>(),
               "tau_nodes_in_ir": taus.iter().map(|t| json!({"node": t.node, "tau": t.tau})).collect::<Vec<_>>(),
               "hook_events": events_json(&c.events),
               "relation": c.relation.to_string()})
    };
    if c.events.is_empty() && (!noises.is_empty() || !taus.is_empty()) {
        rep.count("events_of_applied_derivation_not_identified(not judged)");
        return;
    }
    // hook facts
    let gm: Vec<&Event> = c.events.iter().filter(|e| e.kind == "gaussian_mechanism").collect();
    let tt: Vec<&Event> = c.events.iter().filter(|e| e.kind == "tau_thresholding").collect();
    // IR noise columns with their clipping bound
    struct Applied {
        node: String,
        column: String,
        sigma: f64,
        bound: f64,
        eps_ev: f64,
        delta_ev: f64,
        n_ev: f64,
    }
    let mut applied: Vec<Applied> = vec![];
    let mut count_sigmas: Vec<(String, f64)> = vec![]; // (noise node name, sigma) for _COUNT_DISTINCT_PID_
    for n in noises.iter() {
        for (col, sigma) in n.columns.iter() {
            if col == COUNT_DISTINCT_PID {
                count_sigmas.push((n.node.clone(), *sigma));
                continue;
            }
            match gm.iter().find(|e| e.str("relation") == Some(n.input.as_str()) && e.str("column") == Some(col.as_str())) {
                Some(e) => applied.push(Applied {
                    node: n.node.clone(),
                    column: col.clone(),
                    sigma: *sigma,
                    bound: e.f64("bound").unwrap_or(f64::NAN),
                    eps_ev: e.f64("epsilon").unwrap_or(f64::NAN),
                    delta_ev: e.f64("delta").unwrap_or(f64::NAN),
                    n_ev: e.f64("n").unwrap_or(f64::NAN),
                }),
                None => {
                    rep.violation(
                        "C03|ir|noised column without a calibration event".to_string(),
                        format!("node {} adds noise (sigma {}) to column {} but no Gaussian mechanism was calibrated for it", n.node, sigma, col),
                        case(),
                    );
                    return;
                }
            }
        }
    }
    // the bound each noise was calibrated with is the constant the contributions are really clipped to
    // (read from the scale-factor projections of the IR, not from the hook)
    {
        let clips = clip_constants(&c.relation);
        let mut ir: Vec<f64> = clips.iter().map(|x| x.2).filter(|x| *x > 0.0).collect();
        let mut hook: Vec<f64> = applied.iter().map(|a| a.bound).filter(|b| *b > 0.0).collect();
        ir.sort_by(|a, b| a.partial_cmp(b).unwrap());
        hook.sort_by(|a, b| a.partial_cmp(b).unwrap());
        rep.add("clipping_constants_read_from_ir", ir.len() as u64);
        // every clipping constant of the query must be a bound some noise was calibrated with (the matcher may
        // miss a constant that an optimisation moved elsewhere, so the converse is only counted)
        let close = |a: f64, b: f64| (a - b).abs() <= 1e-9 * a.abs().max(b.abs());
        let unmatched: Vec<f64> = ir.iter().cloned().filter(|a| !hook.iter().any(|b| close(*a, *b))).collect();
        if !unmatched.is_empty() && !hook.is_empty() {
            rep.violation(
                "C03|calibration|noise calibrated for another bound than the clipping constant of the query".to_string(),
                format!("clipping constants in the query: {:?}; bounds the noise was calibrated with: {:?}", ir, hook),
                case(),
            );
            return;
        }
        if ir.len() != hook.len() {
            rep.count("clipping_constants_vs_bounds:counts_differ(not judged)");
        }
    }
    rep.add("noised_columns_observed", applied.len() as u64);
    rep.add("tau_filters_observed", taus.len() as u64);
    if !applied.is_empty() || !taus.is_empty() {
        rep.nontrivial(hash64(&(sql.to_string(), format!("{:?}", params_json(params)), with_sd)));
    }
    // (i)+(ii) every noised column (sigma > 0) is matched by a Gaussian entry whose multiplier is not larger than sigma / C
    let mut need: Vec<(f64, String)> = applied
        .iter()
        .filter(|a| a.sigma > 0.0 && a.bound > 0.0)
        .map(|a| (a.sigma / a.bound, format!("{}.{}", a.node, a.column)))
        .collect();
    need.sort_by(|x, y| x.0.partial_cmp(&y.0).unwrap());
    let mut have: Vec<f64> = entries
        .iter()
        .filter_map(|e| match e {
            DpEvent::Gaussian { noise_multiplier } => Some(*noise_multiplier),
            _ => None,
        })
        .collect();
    have.sort_by(|x, y| x.partial_cmp(y).unwrap());
    if have.len() < need.len() {
        rep.violation(
            "C03|event|fewer Gaussian entries than noised columns".to_string(),
            format!("{} noised aggregate columns in the rewritten query, {} Gaussian entries in the privacy event", need.len(), have.len()),
            case(),
        );
        return;
    }
    let saturated = applied.iter().any(|a| a.bound >= 1e300 || a.sigma >= 1e300);
    for (k, (m, who)) in need.iter().enumerate() {
        if have[k] > m * (1.0 + REL) {
            rep.violation(
                if saturated {
                    "C03|event|recorded noise multiplier larger than sigma/C|a clipping bound is f64::MAX and sigma saturates".to_string()
                } else {
                    "C03|event|recorded noise multiplier larger than sigma/C".to_string()
                },
                format!("{}: applied sigma/C = {}, best unmatched recorded multiplier = {}", who, m, have[k]),
                case(),
            );
            return;
        }
    }
    // a column with a positive bound must be noised
    for a in applied.iter() {
        if a.bound > 0.0 && !(a.sigma > 0.0) {
            rep.violation(
                "C03|ir|positive clipping bound but sigma is not positive".to_string(),
                format!("{}.{}: bound {} sigma {}", a.node, a.column, a.bound, a.sigma),
                case(),
            );
            return;
        }
    }
    // (iii) thresholding: recorded with at least the epsilon/delta it used
    let cu = params.max_privacy_unit_groups as f64;
    let mut ed: Vec<(f64, f64)> = entries
        .iter()
        .filter_map(|e| match e {
            DpEvent::EpsilonDelta { epsilon, delta } => Some((*epsilon, *delta)),
            _ => None,
        })
        .collect();
    if ed.len() < taus.len() {
        rep.violation(
            "C03|event|threshold-based key release without an epsilon-delta entry".to_string(),
            format!("{} threshold filters in the rewritten query, {} epsilon-delta entries in the privacy event", taus.len(), ed.len()),
            case(),
        );
        return;
    }
    for t in taus.iter() {
        // the count noise feeding this filter
        let sigma = match count_sigmas.iter().find(|(n, _)| *n == t.input) {
            Some((_, s)) => *s,
            None => {
                rep.violation(
                    "C03|ir|threshold filter over a count that is not noised".to_string(),
                    format!("filter node {} (tau {}) reads {} which adds no noise to {}", t.node, t.tau, t.input, COUNT_DISTINCT_PID),
                    case(),
                );
                return;
            }
        };
        // some recorded entry must be implied by what was applied
        let pos = ed.iter().position(|(e, d)| {
            *e > 0.0
                && *d > 0.0
                && sigma >= cu.sqrt() * gaussian_multiplier(*e, *d) * (1.0 - REL)
                && t.tau >= tau_reference(sigma, *d, cu) * (1.0 - 1e-6) - 1e-9
        });
        match pos {
            Some(i) => {
                ed.remove(i);
            }
            None => {
                rep.violation(
                    "C03|event|thresholding weaker than the recorded epsilon-delta".to_string(),
                    format!("applied: sigma {} tau {} with Cu {}; recorded entries {:?} each require more noise or a higher threshold", sigma, t.tau, cu, ed),
                    case(),
                );
                return;
            }
        }
        if !(sigma > 0.0) {
            rep.violation(
                "C03|ir|count used for key release is not noised".to_string(),
                format!("sigma of {} is {}", COUNT_DISTINCT_PID, sigma),
                case(),
            );
            return;
        }
    }
    // (iv) budget of each DP aggregation: segments of the event stream between dp_reduce events
    let mut seg_start: Vec<usize> = c.events.iter().enumerate().filter(|(_, e)| e.kind == "dp_reduce").map(|(i, _)| i).collect();
    seg_start.push(c.events.len());
    for wdw in seg_start.windows(2) {
        let seg = &c.events[wdw[0]..wdw[1]];
        let head = &seg[0];
        let (eps, delta) = (head.f64("epsilon").unwrap_or(f64::NAN), head.f64("delta").unwrap_or(f64::NAN));
        // the parameters the compiler was handed are the ones of the request
        if (eps - params.epsilon).abs() > REL * params.epsilon || (delta - params.delta).abs() > REL * params.delta {
            rep.violation(
                "C03|budget|aggregation received other parameters than the request".to_string(),
                format!("request ({}, {}), aggregation got ({}, {})", params.epsilon, params.delta, eps, delta),
                case(),
            );
            return;
        }
        let (mut eps_t, mut delta_t) = (0.0, 0.0);
        if let Some(t) = seg.iter().find(|e| e.kind == "tau_thresholding") {
            eps_t = t.f64("epsilon").unwrap_or(f64::NAN);
            delta_t = t.f64("delta").unwrap_or(f64::NAN);
        }
        let cols: Vec<&Applied> = applied
            .iter()
            .filter(|a| {
                a.bound > 0.0
                    && seg.iter().any(|e| {
                        e.kind == "gaussian_mechanism"
                            && e.str("column") == Some(a.column.as_str())
                            && noises.iter().any(|n| n.node == a.node && Some(n.input.as_str()) == e.str("relation"))
                    })
            })
            .collect();
        if cols.is_empty() && eps_t == 0.0 {
            continue;
        }
        rep.count("budgets_checked");
        let eps_of = |a: &Applied, d: f64| a.bound * (2.0 * (1.25 / d).ln()).sqrt() / a.sigma;
        // witness 1: the split the code announced (delta_ev / n_ev per column)
        let w1_delta: f64 = cols.iter().map(|a| a.delta_ev / a.n_ev).sum::<f64>() + delta_t;
        let w1_eps: f64 = cols.iter().map(|a| eps_of(a, a.delta_ev / a.n_ev)).sum::<f64>() + eps_t;
        let ok1 = w1_delta <= delta * (1.0 + 1e-9) && w1_eps <= eps * (1.0 + 1e-9);
        // witness 2: equal split of what thresholding leaves
        let n = cols.len().max(1) as f64;
        let d_each = (delta - delta_t) / n;
        let ok2 = d_each > 0.0 && cols.iter().map(|a| eps_of(a, d_each)).sum::<f64>() + eps_t <= eps * (1.0 + 1e-9);
        if !(ok1 || ok2) {
            rep.violation(
                if saturated {
                    "C03|budget|applied noise does not fit (epsilon, delta) under basic composition|a clipping bound is f64::MAX and sigma saturates".to_string()
                } else {
                    "C03|budget|applied noise does not fit (epsilon, delta) under basic composition".to_string()
                },
                format!(
                    "aggregation budget ({}, {}); thresholding ({}, {}); {} noised columns; announced split needs ({}, {}); equal split fits: {}",
                    eps, delta, eps_t, delta_t, cols.len(), w1_eps, w1_delta, ok2
                ),
                case(),
            );
            return;
        }
    }
    if !tt.is_empty() {
        rep.count("thresholding_events");
    }
    rep.sample(|| json!({"query": sql, "dp_parameters": params_json(params), "dp_event": format!("{:?}", c.dp_event),
        "noised_columns": applied.iter().map(|a| json!({"column": a.column, "sigma": a.sigma, "bound": a.bound})).collect::<Vec<_>>(),
        "taus": taus.iter().map(|t| t.tau).collect::<Vec<_>>()}));
}

pub fn run(p: &Params) -> Report {
    let mut rep = Report::for_params("C03", p);
    let pp = p.clone();
    drive(
        p.cases,
        &mut rep,
        &|i, rep| {
            let mut r = pp.rng(i);
            let opts = world_options(&mut r);
            let w = gen_dp_world(&mut r, &opts);
            for _ in 0..4 {
                let q = gen_dp_query(&mut r, &w);
                let params = gen_dp_parameters(&mut r);
                let with_sd = r.bool();
                check(&q.sql, &w, &params, with_sd, &q.features, rep);
            }
            // zero budgets must be refused, not mis-reported
            if i % 16 == 0 {
                let q = gen_dp_query(&mut r, &w);
                let mut params = gen_dp_parameters(&mut r);
                if r.bool() {
                    params.epsilon = 0.0;
                } else {
                    params.delta = 0.0;
                }
                rep.count("zero_budget_requests");
                check(&q.sql, &w, &params, false, &["zero_budget"], rep);
            }
        },
        &|i, pi, rep| {
            rep.count("harness_level_panics");
            if rep.notes.len() < 8 {
                rep.notes.push(format!("panic in case {}: {} at {}", i, pi.message, pi.location));
            }
        },
    );
    rep
}
