//! C13 — the rewriting search is complete, well-typed and picks a best-scoring derivation.
//! C02 (parts 1 and 2) — label flow of every consistent derivation and rewriter arms of the applied one.
use crate::gen::catalog::*;
use crate::gen::dpsql::*;
use crate::mon::dpq::*;
use crate::mon::execq::{compile, Compiled};
use crate::util::*;
use qrlew::privacy_unit_tracking::{PrivacyUnit, Strategy};
use qrlew::relation::{Relation, Variant as _};
use qrlew::rewriting::rewriting_rule::{
    Property, RelationWithRewritingRule, RelationWithRewritingRules, RewritingRulesEliminator, RewritingRulesSelector,
    RewritingRulesSetter, Score,
};
use qrlew::visitor::Acceptor;
use serde_json::json;
use std::collections::{BTreeSet, HashMap};

#[derive(Clone, Copy, PartialEq)]
pub enum Which {
    C13,
    C02,
}

/// One consistent labeling, as found by brute force over the attached rules
#[derive(Clone, Debug)]
struct Labeling {
    canon: String,
    output: Property,
    /// (node kind, node name, rule inputs, rule output, is protected table, raw)
    nodes: Vec<NodeLabel>,
    raw: bool,
}

#[derive(Clone, Debug)]
struct NodeLabel {
    kind: &'static str,
    name: String,
    inputs: Vec<Property>,
    output: Property,
    raw: bool,
}

fn kind_of(r: &Relation) -> &'static str {
    match r {
        Relation::Table(_) => "table",
        Relation::Map(_) => "map",
        Relation::Reduce(_) => "reduce",
        Relation::Join(_) => "join",
        Relation::Set(_) => "set",
        Relation::Values(_) => "values",
    }
}

const MAX_LABELINGS: usize = 20000;

fn brute(node: &RelationWithRewritingRules, protected: &dyn Fn(&Relation) -> bool, overflow: &mut bool) -> Vec<Labeling> {
    let children: Vec<Vec<Labeling>> = node.inputs().iter().map(|c| brute(c, protected, overflow)).collect();
    let mut out = vec![];
    for rule in node.attributes().iter() {
        if rule.inputs().len() != children.len() {
            continue;
        }
        // cartesian product of child labelings whose outputs match the rule's inputs
        let mut combos: Vec<Vec<&Labeling>> = vec![vec![]];
        for (ci, child) in children.iter().enumerate() {
            let mut next = vec![];
            for combo in combos.iter() {
                for l in child.iter().filter(|l| l.output == rule.inputs()[ci]) {
                    let mut c2 = combo.clone();
                    c2.push(l);
                    next.push(c2);
                    if next.len() > MAX_LABELINGS {
                        *overflow = true;
                        break;
                    }
                }
            }
            combos = next;
        }
        for combo in combos {
            let rel = node.relation();
            let is_protected_table = matches!(rel, Relation::Table(_)) && protected(rel);
            // raw(n): depends on a protected table with no DP reduce in between
            let raw = if matches!(rel, Relation::Table(_)) {
                is_protected_table && *rule.output() != Property::SyntheticData
            } else if matches!(rel, Relation::Reduce(_))
                && *rule.output() == Property::DifferentiallyPrivate
                && rule.inputs() == [Property::PrivacyUnitPreserving]
            {
                false
            } else {
                combo.iter().any(|l| l.raw)
            };
            let mut nodes: Vec<NodeLabel> = combo.iter().flat_map(|l| l.nodes.clone()).collect();
            nodes.push(NodeLabel { kind: kind_of(rel), name: rel.name().to_string(), inputs: rule.inputs().to_vec(), output: *rule.output(), raw });
            out.push(Labeling {
                canon: format!("{}[{}]({})", rel.name(), rule, combo.iter().map(|l| l.canon.clone()).collect::<Vec<_>>().join(";")),
                output: *rule.output(),
                nodes,
                raw,
            });
            if out.len() > MAX_LABELINGS {
                *overflow = true;
                return out;
            }
        }
    }
    out
}

fn canon_selected(n: &RelationWithRewritingRule) -> String {
    format!(
        "{}[{}]({})",
        n.relation().name(),
        n.attributes(),
        n.inputs().iter().map(|c| canon_selected(c)).collect::<Vec<_>>().join(";")
    )
}

fn well_typed(n: &RelationWithRewritingRule) -> Result<(), String> {
    let ins = n.attributes().inputs();
    if ins.len() != n.inputs().len() {
        return Err(format!("{}: rule {} has {} inputs, node has {}", n.relation().name(), n.attributes(), ins.len(), n.inputs().len()));
    }
    for (i, c) in n.inputs().iter().enumerate() {
        if c.attributes().output() != &ins[i] {
            return Err(format!(
                "{}: rule {} expects {} from input {} but the child's rule produces {}",
                n.relation().name(),
                n.attributes(),
                ins[i],
                i,
                c.attributes().output()
            ));
        }
        well_typed(c)?;
    }
    Ok(())
}

fn n_nodes(r: &Relation) -> usize {
    1 + r.inputs().iter().map(|i| n_nodes(i)).sum::<usize>()
}

fn acceptable(entry: &str, p: &Property) -> bool {
    match entry {
        "dp" => matches!(p, Property::Public | Property::Published | Property::DifferentiallyPrivate | Property::SyntheticData),
        _ => matches!(p, Property::Public | Property::PrivacyUnitPreserving),
    }
}

fn extra_queries(r: &mut Rng) -> String {
    // shapes the DP / PUP generators do not produce: sets, public-only, private table alone, deep nesting
    match r.below(12) {
        0 => "SELECT city, region FROM shops".to_string(),
        1 => "SELECT id FROM users".to_string(),
        2 => "SELECT id FROM users UNION SELECT user_id FROM orders".to_string(),
        3 => "SELECT city FROM users INTERSECT SELECT city FROM shops".to_string(),
        4 => "SELECT s.region, COUNT(*) AS n FROM shops AS s GROUP BY s.region".to_string(),
        5 => "SELECT u.city, AVG(o.amount) AS a FROM orders AS o JOIN users AS u ON o.user_id = u.id JOIN shops AS s ON u.city = s.city GROUP BY u.city".to_string(),
        6 => "WITH a AS (SELECT status, SUM(amount) AS s FROM orders GROUP BY status), b AS (SELECT status, COUNT(*) AS n FROM orders GROUP BY status) SELECT a.status, a.s, b.n FROM a JOIN b ON a.status = b.status".to_string(),
        7 => "SELECT MAX(amount) AS m FROM orders".to_string(),
        8 => "WITH t AS (SELECT AVG(amount) AS avg_a FROM orders) SELECT o.id, o.amount - t.avg_a AS d FROM orders AS o CROSS JOIN t".to_string(),
        9 => "WITH t AS (SELECT AVG(amount) AS avg_a FROM orders) SELECT SUM(o.amount - t.avg_a) AS d FROM orders AS o CROSS JOIN t".to_string(),
        10 => "SELECT status, MAX(status) AS ms, COUNT(*) AS n FROM orders GROUP BY status".to_string(),
        _ => "SELECT k, COUNT(*) AS n FROM events GROUP BY k".to_string(),
    }
}

pub fn check(which: Which, sql: &str, w: &DpWorld, with_sd: bool, strategy: Strategy, entry: &str, rep: &mut Report) {
    let relations = w.cat.relations();
    let rel = match compile(sql, &relations) {
        Compiled::Ok(r) => r,
        Compiled::Err(_) => {
            rep.count("parse_error");
            return;
        }
        Compiled::Panic(_) => {
            rep.count("parse_panic");
            return;
        }
    };
    let nn = n_nodes(&rel);
    if nn > 14 {
        rep.count("tree_too_large_for_brute_force(skipped)");
        return;
    }
    let pu: PrivacyUnit = w.privacy_unit();
    let params = qrlew::differential_privacy::DpParameters::from_epsilon_delta(1.0, 1e-3);
    let sd = if with_sd { Some(synthetic_data(w)) } else { None };
    // Relation names of the protected tables (the privacy unit is keyed by hierarchy key)
    let protected_names: Vec<String> = pu.iter().map(|(n, _)| format!("{}{}", w.cat.rel_prefix, n)).collect();
    let protected = |r: &Relation| protected_names.iter().any(|n| n == r.name());
    let case = || json!({"query": sql, "synthetic_data": with_sd, "strategy": format!("{:?}", strategy), "entry_point": entry, "relation": rel.to_string()});
    // the public pipeline
    let pipeline = guarded(|| {
        let setter_strategy = if entry == "dp" { Strategy::Hard } else { strategy };
        let attached = rel.set_rewriting_rules(RewritingRulesSetter::new(&relations, sd.clone(), pu.clone(), params.clone(), setter_strategy));
        let mut overflow = false;
        let l = brute(&attached, &protected, &mut overflow);
        let eliminated = attached.map_rewriting_rules(RewritingRulesEliminator);
        let selected = eliminated.select_rewriting_rules(RewritingRulesSelector);
        let sel: Vec<(String, Property, f64, Result<(), String>)> = selected
            .iter()
            .map(|s| (canon_selected(s), *s.attributes().output(), s.accept(Score), well_typed(s)))
            .collect();
        (l, sel, overflow)
    });
    let (l, sel, overflow) = match pipeline {
        Ok(x) => x,
        Err(p) => {
            rep.count("pipeline_panic");
            if rep.notes.len() < 5 {
                rep.notes.push(format!("rule pipeline panics on {}: {} at {}", sql, p.message, p.location));
            }
            return;
        }
    };
    if overflow {
        rep.count("brute_force_overflow(skipped)");
        return;
    }
    rep.eval();
    rep.count("trees");
    rep.add("labelings_enumerated", l.len() as u64);
    rep.count(&format!("nodes:{}", nn.min(12)));
    rep.nontrivial(hash64(&(sql.to_string(), with_sd, format!("{:?}", strategy), entry.to_string())));
    if which == Which::C13 {
        // completeness and well-typedness of select
        let lset: BTreeSet<&String> = l.iter().map(|x| &x.canon).collect();
        let sset: BTreeSet<&String> = sel.iter().map(|x| &x.0).collect();
        if let Some(missing) = lset.difference(&sset).next() {
            rep.violation(
                "C13|select-incomplete".to_string(),
                format!("a consistent derivation is not returned by select_rewriting_rules: {}", missing),
                case(),
            );
            return;
        }
        if let Some(extra) = sset.difference(&lset).next() {
            rep.violation(
                "C13|select-returns-inconsistent-derivation".to_string(),
                format!("select_rewriting_rules returns a derivation the attached rules do not allow: {}", extra),
                case(),
            );
            return;
        }
        for (c, _, _, wt) in sel.iter() {
            if let Err(e) = wt {
                rep.violation("C13|ill-typed-derivation".to_string(), format!("{} in {}", e, c), case());
                return;
            }
        }
        // the entry point
        let best = sel.iter().filter(|s| acceptable(entry, &s.1)).map(|s| s.2).fold(f64::NEG_INFINITY, f64::max);
        let exists = best > f64::NEG_INFINITY;
        let outcome = if entry == "dp" {
            dp_compile(&rel, &relations, sd.clone(), pu.clone(), params.clone())
        } else {
            pup_compile(&rel, &relations, sd.clone(), pu.clone(), params.clone(), strategy)
        };
        match outcome {
            Outcome::Ok(c) => {
                rep.count("entry_ok");
                if !exists {
                    rep.violation(
                        "C13|rewriting-returned-without-acceptable-derivation".to_string(),
                        "the entry point returned a rewriting although no consistent derivation has an acceptable root label".to_string(),
                        case(),
                    );
                    return;
                }
                match c.choice_score {
                    Some(s) => {
                        rep.count("scores_compared");
                        if s + 1e-9 < best {
                            rep.violation(
                                "C13|not-best-score".to_string(),
                                format!("applied derivation scores {}, a consistent acceptable derivation scores {}", s, best),
                                case(),
                            );
                            return;
                        }
                        if s > best + 1e-9 {
                            rep.violation(
                                "C13|score-of-unknown-derivation".to_string(),
                                format!("applied derivation scores {}, higher than every consistent acceptable derivation ({})", s, best),
                                case(),
                            );
                            return;
                        }
                    }
                    None => rep.count("choice_event_missing"),
                }
            }
            Outcome::Err(e) => {
                rep.count("entry_err");
                if exists && (e.contains("unreachable") || e.contains("Unreachable")) {
                    rep.violation(
                        "C13|unreachable-although-derivation-exists".to_string(),
                        format!("the entry point reports the property as unreachable, yet {} consistent derivations have an acceptable root", sel.iter().filter(|s| acceptable(entry, &s.1)).count()),
                        case(),
                    );
                    return;
                }
            }
            Outcome::Panic(p) => {
                rep.count("entry_panic");
                if !exists && rep.notes.len() < 6 {
                    rep.notes.push(format!("entry point panics on {}: {}", sql, p.message));
                }
            }
        }
        rep.sample(|| json!({"query": sql, "entry_point": entry, "strategy": format!("{:?}", strategy), "synthetic_data": with_sd,
            "nodes": nn, "consistent_derivations": l.len(), "acceptable": sel.iter().filter(|s| acceptable(entry, &s.1)).count(), "best_score": best}));
    } else {
        // C02 part 1: label flow of every consistent derivation
        for lab in l.iter() {
            rep.count("derivations_checked");
            for n in lab.nodes.iter() {
                rep.count(&format!("label:{}:{}", n.kind, n.output));
                let is_prot_table = n.kind == "table" && protected_names.iter().any(|p| *p == n.name);
                if is_prot_table && matches!(n.output, Property::Public | Property::Published | Property::DifferentiallyPrivate) {
                    rep.violation(
                        format!("C02|label|protected table labelled {}", n.output),
                        format!("table {} has a privacy unit but is labelled {} in {}", n.name, n.output, lab.canon),
                        case(),
                    );
                    return;
                }
                if n.raw && matches!(n.output, Property::Public | Property::Published) {
                    rep.violation(
                        format!("C02|label|{} {} depends on protected rows without a DP aggregation in between", n.kind, n.output),
                        format!("node {} ({}) is labelled {} but derives from a protected table with no DP reduce in between: {}", n.name, n.kind, n.output, lab.canon),
                        case(),
                    );
                    return;
                }
                if n.output == Property::DifferentiallyPrivate && !(n.kind == "reduce" && n.inputs == [Property::PrivacyUnitPreserving]) {
                    rep.violation(
                        format!("C02|label|DP label on a {} with inputs {:?}", n.kind, n.inputs),
                        format!("node {}: only a Reduce over a privacy-unit-preserving input may be labelled DP", n.name),
                        case(),
                    );
                    return;
                }
                if n.output == Property::SyntheticData && n.kind == "table" && !with_sd {
                    rep.violation("C02|label|synthetic label without synthetic data".to_string(), n.name.clone(), case());
                    return;
                }
            }
        }
        // C02 part 2: arms of the applied derivation (DP entry point)
        if entry == "dp" {
            if let Outcome::Ok(c) = dp_compile(&rel, &relations, sd.clone(), pu.clone(), params.clone()) {
                rep.count("applied_derivations_observed");
                let mut root_rule: Option<String> = None;
                for e in c.events.iter() {
                    match e.kind {
                        "rewrite_begin" => root_rule = e.str("rule").map(|s| s.to_string()),
                        "rewrite_node" => {
                            let rule = e.str("rule").unwrap_or("");
                            let kind = e.str("kind").unwrap_or("");
                            let out = rule.rsplit("→ ").next().unwrap_or(rule).trim();
                            let fields: Vec<String> = e.list("output_fields").map(|l| l.to_vec()).unwrap_or_default();
                            rep.count(&format!("arm:{}:{}", kind, rule));
                            let has_pu = fields.iter().any(|f| f == PrivacyUnit::privacy_unit()) && fields.iter().any(|f| f == PrivacyUnit::privacy_unit_weight());
                            if out == "PUP" && kind != "values" && !has_pu {
                                rep.violation(
                                    format!("C02|arm|{} with rule {} rewritten without privacy-unit columns", kind, rule),
                                    format!("node {} -> {} has fields {:?}", e.str("name").unwrap_or(""), e.str("output_name").unwrap_or(""), fields),
                                    case(),
                                );
                                return;
                            }
                            if out == "SD" && kind == "table" && !e.str("output_name").unwrap_or("").starts_with("_SYNTHETIC_") {
                                rep.violation(
                                    "C02|arm|table with a synthetic-data rule not replaced by its synthetic table".to_string(),
                                    format!("node {} -> {}", e.str("name").unwrap_or(""), e.str("output_name").unwrap_or("")),
                                    case(),
                                );
                                return;
                            }
                            if out == "DP" && kind == "reduce" {
                                let name = e.str("name").unwrap_or("");
                                let seen = c.events.iter().any(|d| d.kind == "dp_reduce");
                                if !seen {
                                    rep.violation(
                                        "C02|arm|reduce with a DP rule rewritten without the DP aggregation".to_string(),
                                        format!("node {}: no differentially-private reduce was built", name),
                                        case(),
                                    );
                                    return;
                                }
                            }
                        }
                        _ => {}
                    }
                }
                // label flow over the applied derivation itself: each node's rule must consume the labels its
                // children's rules produce, and nothing labelled public / published may derive from a
                // protected table without a PUP -> DP reduce in between
                {
                    let mut by_name: HashMap<String, (Vec<String>, String)> = HashMap::new();
                    for e in c.events.iter().filter(|e| e.kind == "rewrite_node") {
                        let rule = e.str("rule").unwrap_or("");
                        let (ins, out) = match rule.rsplit_once("→") {
                            Some((a, b)) => (a.split(',').map(|x| x.trim().to_string()).filter(|x| !x.is_empty()).collect::<Vec<_>>(), b.trim().to_string()),
                            None => (vec![], rule.trim().to_string()),
                        };
                        by_name.insert(e.str("name").unwrap_or("").to_string(), (ins, out));
                    }
                    // post-order over the original relation
                    fn flow(
                        n: &Relation,
                        by_name: &HashMap<String, (Vec<String>, String)>,
                        protected: &dyn Fn(&Relation) -> bool,
                        problems: &mut Vec<(String, String)>,
                    ) -> Option<(String, bool)> {
                        let kids: Vec<Option<(String, bool)>> = n.inputs().iter().map(|k| flow(k, by_name, protected, problems)).collect();
                        let (ins, out) = by_name.get(n.name())?.clone();
                        let kid_labels: Vec<String> = kids.iter().map(|k| k.as_ref().map(|x| x.0.clone()).unwrap_or_else(|| "?".into())).collect();
                        if !kids.is_empty() && kids.iter().all(|k| k.is_some()) && ins != kid_labels {
                            problems.push((
                                format!("C02|applied-derivation|{} rule consumes labels its inputs do not have", kind_of(n)),
                                format!("node {} was rewritten with rule {:?} → {} but its inputs were rewritten to {:?}", n.name(), ins, out, kid_labels),
                            ));
                        }
                        let raw = if matches!(n, Relation::Table(_)) {
                            protected(n) && out != "SD"
                        } else if matches!(n, Relation::Reduce(_)) && out == "DP" && ins == ["PUP".to_string()] {
                            false
                        } else {
                            kids.iter().any(|k| k.as_ref().map_or(false, |x| x.1))
                        };
                        if raw && (out == "Pub" || out == "Pubd" || (out == "DP" && matches!(n, Relation::Table(_)))) {
                            problems.push((
                                format!("C02|applied-derivation|{} labelled {} derives from protected rows without a DP aggregation in between", kind_of(n), out),
                                format!("node {} ({} → {})", n.name(), ins.join(", "), out),
                            ));
                        }
                        if raw && out == "SD" {
                            problems.push((
                                format!("C02|applied-derivation|{} labelled SD derives from real protected rows", kind_of(n)),
                                format!("node {} ({} → {})", n.name(), ins.join(", "), out),
                            ));
                        }
                        Some((out, raw))
                    }
                    let mut problems = vec![];
                    flow(&rel, &by_name, &protected, &mut problems);
                    rep.count("applied_derivations_label_flow_checked");
                    if let Some((sig, detail)) = problems.into_iter().next() {
                        rep.violation(sig, detail, case());
                        return;
                    }
                }
                // the root label of the applied derivation is acceptable
                if let Some(rr) = root_rule {
                    let out = rr.rsplit("→ ").next().unwrap_or(&rr).trim().to_string();
                    rep.count(&format!("root:{}", out));
                    if !["Pub", "Pubd", "DP", "SD"].contains(&out.as_str()) {
                        rep.violation(
                            format!("C02|arm|DP entry point applied a derivation whose root is {}", out),
                            rr,
                            case(),
                        );
                        return;
                    }
                }
                // a protected table may only appear in the result under privacy-unit tracking or DP aggregation:
                // every noise-free path is examined by the execution monitor (part 3)
            }
        }
        rep.sample(|| json!({"query": sql, "entry_point": entry, "synthetic_data": with_sd, "consistent_derivations": l.len(),
            "example": l.first().map(|x| x.canon.clone())}));
    }
}

pub fn run(p: &Params, which: Which) -> Report {
    let mut rep = Report::for_params(if which == Which::C13 { "C13" } else { "C02" }, p);
    let pp = p.clone();
    drive(
        p.cases,
        &mut rep,
        &|i, rep| {
            let mut r = pp.rng(i);
            if which == Which::C02 && i % 2 == 1 {
                // part 3: channel-cut non-interference on executions
                crate::mon::c02x::run_cases(&pp, i, rep);
                return;
            }
            let opts = crate::mon::c03::world_options(&mut r);
            let w = gen_dp_world(&mut r, &opts);
            for k in 0..4 {
                let sql = match k {
                    0 => gen_dp_query(&mut r, &w).sql,
                    1 => gen_pup_query(&mut r, &w).sql,
                    2 => extra_queries(&mut r),
                    _ => gen_dp_query(&mut r, &w).sql,
                };
                let with_sd = r.bool();
                let strategy = if r.bool() { Strategy::Hard } else { Strategy::Soft };
                let entry = if r.chance(2, 3) { "dp" } else { "pup" };
                check(which, &sql, &w, with_sd, strategy, entry, rep);
            }
        },
        &|i, pi, rep| {
            rep.count("harness_level_panics");
            if rep.notes.len() < 8 {
                rep.notes.push(format!("panic in case {}: {} at {}", i, pi.message, pi.location));
            }
        },
    );
    rep
}
