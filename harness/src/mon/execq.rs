//! Shared helpers of the executing monitors: compile SQL to a relation, render, run staged on
//! SQLite, decode rows by declared type, walk the relation tree.
use crate::exec::sqlite::{Db, Rows, V};
use crate::gen::catalog::Catalog;
use crate::util::*;
use qrlew::ast;
use qrlew::builder::With;
use qrlew::data_type::value::Value;
use qrlew::data_type::DataType;
use qrlew::hierarchy::Hierarchy;
use qrlew::relation::{JoinOperator, Relation, Variant as _};
use std::collections::HashMap;
use std::sync::Arc;

pub enum Compiled {
    Ok(Relation),
    Err(String),
    Panic(PanicInfo),
}

pub fn compile(sql: &str, relations: &Hierarchy<Arc<Relation>>) -> Compiled {
    match guarded(|| {
        let q = qrlew::sql::parse(sql).map_err(|e| e.to_string())?;
        Relation::try_from(q.with(relations)).map_err(|e| e.to_string())
    }) {
        Ok(Ok(r)) => Compiled::Ok(r),
        Ok(Err(e)) => Compiled::Err(e),
        Err(p) => Compiled::Panic(p),
    }
}

pub fn render(rel: &Relation) -> Result<String, PanicInfo> {
    guarded(|| ast::Query::from(rel).to_string())
}

/// All nodes of the relation tree by name
pub fn nodes<'a>(rel: &'a Relation, out: &mut HashMap<String, &'a Relation>) {
    if out.contains_key(rel.name()) {
        return;
    }
    out.insert(rel.name().to_string(), rel);
    for i in rel.inputs() {
        nodes(i, out);
    }
}

pub fn kind(rel: &Relation) -> &'static str {
    match rel {
        Relation::Table(_) => "Table",
        Relation::Map(_) => "Map",
        Relation::Reduce(_) => "Reduce",
        Relation::Join(j) => match j.operator() {
            JoinOperator::Inner(_) => "Join:Inner",
            JoinOperator::LeftOuter(_) => "Join:LeftOuter",
            JoinOperator::RightOuter(_) => "Join:RightOuter",
            JoinOperator::FullOuter(_) => "Join:FullOuter",
            JoinOperator::Cross => "Join:Cross",
        },
        Relation::Set(s) => match s.operator() {
            qrlew::relation::SetOperator::Union => "Set:Union",
            qrlew::relation::SetOperator::Except => "Set:Except",
            qrlew::relation::SetOperator::Intersect => "Set:Intersect",
        },
        Relation::Values(_) => "Values",
    }
}

/// What computes column `i` of the node (signature material)
pub fn column_origin(rel: &Relation, i: usize) -> String {
    match rel {
        Relation::Map(m) => match m.projection().get(i) {
            Some(qrlew::expr::Expr::Function(f)) => crate::mon::c06::fname(f.function()),
            Some(qrlew::expr::Expr::Column(_)) => "column".into(),
            Some(qrlew::expr::Expr::Value(_)) => "literal".into(),
            _ => "other".into(),
        },
        Relation::Reduce(r) => match r.aggregate().get(i) {
            Some(a) => format!("{}", a.aggregate()),
            None => "?".into(),
        },
        Relation::Join(j) => {
            let nl = j.left().schema().len();
            if i < nl { "left".into() } else { "right".into() }
        }
        _ => "col".into(),
    }
}

/// Known-problematic typing patterns inside a projection expression (signature material): the
/// pattern is named instead of the top-level function, so that one defect has one signature
/// wherever it is nested.
pub fn culprits(e: &qrlew::expr::Expr, input: &DataType) -> Vec<String> {
    culprits_for(e, input, false)
}

/// `null_result`: the observation is a NULL in a non-optional column (patterns that lose nullability first)
pub fn culprits_for(e: &qrlew::expr::Expr, input: &DataType, null_result: bool) -> Vec<String> {
    use qrlew::data_type::function::Function as _;
    use qrlew::expr::function::Function as F;
    use qrlew::expr::Expr;
    let mut out: Vec<String> = vec![];
    fn is_opt(t: &DataType) -> bool {
        matches!(t, DataType::Optional(_))
    }
    fn strip(t: &DataType) -> &DataType {
        match t {
            DataType::Optional(o) => o.data_type(),
            t => t,
        }
    }
    fn walk(e: &Expr, input: &DataType, out: &mut Vec<String>) {
        if let Expr::Function(f) = e {
            let args = f.arguments();
            let tys: Vec<Option<DataType>> = args
                .iter()
                .map(|a| guarded(|| a.super_image(input)).ok().and_then(|r| r.ok()))
                .collect();
            let any_opt = tys.iter().any(|t| t.as_ref().map_or(false, is_opt));
            let ints = tys.iter().filter(|t| t.as_ref().map_or(false, |t| matches!(strip(t), DataType::Integer(_) | DataType::Boolean(_)))).count();
            let floats = tys.iter().filter(|t| t.as_ref().map_or(false, |t| matches!(strip(t), DataType::Float(_)))).count();
            match f.function() {
                F::Divide
                    if args.iter().any(|a| match a {
                        Expr::Value(qrlew::data_type::value::Value::Float(x)) => x.fract() == 0.0,
                        Expr::Function(g) if g.function() == F::Opposite => matches!(
                            g.arguments().first(),
                            Some(Expr::Value(qrlew::data_type::value::Value::Float(x))) if x.fract() == 0.0
                        ),
                        _ => false,
                    }) || tys.iter().any(|t| {
                        t.as_ref().map_or(false, |t| match strip(t) {
                            DataType::Float(f) => !f.is_empty() && f.iter().all(|[a, b]| a == b && a.fract() == 0.0),
                            _ => false,
                        })
                    }) =>
                {
                    out.push("division with an integral float operand (literal 4.0 rendered as 4 / value set {7.0} typed as integers): integer and real division get confused".into())
                }
                F::Divide if ints == 2 && floats == 0 => {
                    out.push("division of two integer-typed operands (SQL truncates, the declared type is the real quotient)".into())
                }
                F::Least | F::Greatest if any_opt => out.push("least/greatest with a nullable argument (PostgreSQL skips NULLs)".into()),
                F::Case if tys.first().map_or(false, |t| t.as_ref().map_or(false, is_opt)) => {
                    out.push("case with a nullable condition (NULL takes the ELSE branch)".into())
                }
                F::CastAsText if any_opt => out.push("cast_as_text of a nullable argument typed non-optional".into()),
                F::IsNull if any_opt => out.push("is_null of a nullable argument typed never-true".into()),
                F::Coalesce if any_opt => out.push("coalesce".into()),
                F::Eq | F::NotEq | F::Gt | F::Lt | F::GtEq | F::LtEq if ints > 0 && floats > 0 => {
                    out.push("comparison mixing integer and float".into())
                }
                F::And | F::Or if any_opt => out.push("and/or with a nullable operand (three-valued logic)".into()),
                _ => {}
            }
            for a in args.iter() {
                walk(a, input, out);
            }
        }
    }
    walk(e, input, &mut out);
    // one signature per defect: keep the highest-priority pattern only
    let priority = [
        "division with an integral float operand",
        "division of two integer-typed operands",
        "case with a nullable condition",
        "least/greatest with a nullable argument",
        "cast_as_text of a nullable argument",
        "is_null of a nullable argument",
        "comparison mixing integer and float",
        "coalesce",
        "and/or with a nullable operand",
    ];
    if null_result {
        if let Some(c) = out.iter().find(|c| c.starts_with("cast_as_text of a nullable argument")) {
            return vec![c.clone()];
        }
    } else if out.iter().any(|c| !c.starts_with("cast_as_text of a nullable argument")) {
        // the lost nullability of CAST(x AS TEXT) only explains a NULL in a non-optional column;
        // a non-NULL value outside the declared type has another cause when one is present
        out.retain(|c| !c.starts_with("cast_as_text of a nullable argument"));
    }
    for p in priority {
        if let Some(c) = out.iter().find(|c| c.starts_with(p)) {
            return vec![c.clone()];
        }
    }
    out.truncate(1);
    out
}

/// Decode an engine value by the declared type of its column
pub fn decode(v: &V, ty: &DataType) -> Option<Value> {
    let inner = match ty {
        DataType::Optional(o) => o.data_type(),
        t => t,
    };
    Some(match (v, inner) {
        (V::Null, _) => Value::none(),
        (V::Int(i), DataType::Boolean(_)) if *i == 0 || *i == 1 => Value::boolean(*i == 1),
        (V::Int(i), DataType::Float(_)) => Value::float(*i as f64),
        (V::Int(i), _) => Value::integer(*i),
        (V::Real(f), DataType::Integer(_)) if f.fract() == 0.0 && f.abs() < 9.0e15 => Value::integer(*f as i64),
        (V::Real(f), _) => {
            if f.is_nan() {
                return None;
            }
            Value::float(*f)
        }
        (V::Text(s), DataType::Date(_)) => Value::date(chrono::NaiveDate::parse_from_str(s, "%Y-%m-%d").ok()?),
        (V::Text(s), _) => Value::text(s.clone()),
        (V::Blob(b), _) => Value::bytes(b.clone()),
    })
}

pub struct Staged {
    pub stages: Vec<(String, Rows)>,
    pub result: Rows,
}

pub fn run_staged(db: &Db, sql: &str) -> Result<Staged, String> {
    let (stages, result) = db.staged(sql, &mut |_, _, _| Ok(()))?;
    Ok(Staged { stages, result })
}

/// Is the instance conforming (types, sizes, uniqueness)? A non-conforming instance is a harness bug.
pub fn conforming(cat: &Catalog) -> Result<(), String> {
    use crate::oracle::member::member_premise;
    for t in cat.tables.iter() {
        let n = t.rows.len() as i64;
        if n < t.size.0 || n > t.size.1 {
            return Err(format!("{}: {} rows outside declared size {:?}", t.name, n, t.size));
        }
        for (ci, c) in t.cols.iter().enumerate() {
            let mut seen = std::collections::HashSet::new();
            for row in t.rows.iter() {
                if member_premise(&row[ci], &c.ty) != Some(true) {
                    return Err(format!("{}.{}: value {} not in {}", t.name, c.name, row[ci], c.ty));
                }
                if c.constraint.is_some() && !crate::gen::catalog::is_none(&row[ci]) && !seen.insert(crate::gen::catalog::unique_key(&row[ci])) {
                    if !matches!(c.constraint, Some(qrlew::relation::Constraint::ForeignKey)) {
                        return Err(format!("{}.{}: duplicate {}", t.name, c.name, row[ci]));
                    }
                }
            }
        }
    }
    Ok(())
}
