//! C06 — range propagation is sound for every function, aggregate and expression.
use crate::gen::types::*;
use crate::oracle::member::{has_null, is_null, member_premise, member_tol};

const TOL: f64 = 1e-9;
use crate::util::*;
use qrlew::data_type::function::Function as _;
use qrlew::data_type::value::Value;
use qrlew::data_type::{self as dt, DataType};
use qrlew::expr::aggregate::Aggregate;
use qrlew::expr::function::Function;
use qrlew::expr::Expr;
use serde_json::json;
use std::sync::Arc;

/// Kinds of arguments a function is mostly fed with
#[derive(Clone, Copy, Debug, PartialEq)]
pub enum K {
    Num,
    Int,
    Float,
    Text,
    Bool,
    Date,
    DateTime,
    Time,
    Temporal,
    Scalar,
    /// same kind as the previous argument
    Same,
    /// a list of the previous argument's kind
    ListOfPrev,
    /// text that looks like a number / date
    NumText,
}

pub const ALL_FUNCTIONS: &[Function] = &[
    Function::Opposite,
    Function::Not,
    Function::Plus,
    Function::Minus,
    Function::Multiply,
    Function::Divide,
    Function::Modulo,
    Function::StringConcat,
    Function::Gt,
    Function::Lt,
    Function::GtEq,
    Function::LtEq,
    Function::Eq,
    Function::NotEq,
    Function::And,
    Function::Or,
    Function::Xor,
    Function::BitwiseOr,
    Function::BitwiseAnd,
    Function::BitwiseXor,
    Function::Exp,
    Function::Ln,
    Function::Log,
    Function::Abs,
    Function::Sin,
    Function::Cos,
    Function::Sqrt,
    Function::Pow,
    Function::Case,
    Function::Concat(2),
    Function::Concat(3),
    Function::CharLength,
    Function::Lower,
    Function::Upper,
    Function::Md5,
    Function::Position,
    Function::Random(0),
    Function::Pi,
    Function::CastAsText,
    Function::CastAsFloat,
    Function::CastAsInteger,
    Function::CastAsBoolean,
    Function::CastAsDateTime,
    Function::CastAsDate,
    Function::CastAsTime,
    Function::Least,
    Function::Greatest,
    Function::Rtrim,
    Function::Ltrim,
    Function::Substr,
    Function::SubstrWithSize,
    Function::Ceil,
    Function::Floor,
    Function::Round,
    Function::Trunc,
    Function::RegexpContains,
    Function::RegexpExtract,
    Function::RegexpReplace,
    Function::Newid,
    Function::Encode,
    Function::Decode,
    Function::Unhex,
    Function::CurrentDate,
    Function::CurrentTime,
    Function::CurrentTimestamp,
    Function::ExtractEpoch,
    Function::ExtractYear,
    Function::ExtractMonth,
    Function::ExtractDay,
    Function::ExtractHour,
    Function::ExtractMinute,
    Function::ExtractSecond,
    Function::ExtractMicrosecond,
    Function::ExtractMillisecond,
    Function::ExtractDow,
    Function::ExtractWeek,
    Function::Dayname,
    Function::FromUnixtime,
    Function::UnixTimestamp,
    Function::DateFormat,
    Function::Quarter,
    Function::DatetimeDiff,
    Function::Date,
    Function::InList,
    Function::Coalesce,
    Function::Sign,
    Function::Like,
    Function::Ilike,
    Function::Choose,
    Function::IsNull,
    Function::IsBool,
];

/// Exhaustive (no wildcard): a new library function breaks the harness build until it is given
/// an argument specification, so "all functions" is enforced.
pub fn spec(f: Function) -> Vec<K> {
    use Function::*;
    use K::*;
    match f {
        Opposite => vec![Num],
        Not => vec![Bool],
        Plus | Minus | Multiply | Divide => vec![Num, Num],
        Modulo => vec![Int, Int],
        StringConcat => vec![Text, Text],
        Gt | Lt | GtEq | LtEq | Eq | NotEq => vec![Scalar, Same],
        And | Or | Xor => vec![Bool, Bool],
        BitwiseOr | BitwiseAnd | BitwiseXor => vec![Int, Int],
        Exp | Ln | Log | Abs | Sin | Cos | Sqrt | Sign => vec![Num],
        Pow => vec![Num, Num],
        Case => vec![Bool, Scalar, Same],
        Concat(n) => (0..n).map(|_| Scalar).collect(),
        CharLength | Lower | Upper | Md5 | Unhex => vec![Text],
        Position | Rtrim | Ltrim | RegexpContains | Like | Ilike | Encode | Decode => vec![Text, Text],
        Random(_) | Pi | Newid | CurrentDate | CurrentTime | CurrentTimestamp => vec![],
        CastAsText => vec![Scalar],
        CastAsFloat | CastAsInteger => vec![NumText],
        CastAsBoolean => vec![NumText],
        CastAsDateTime | CastAsDate | CastAsTime => vec![Temporal],
        Least | Greatest => vec![Num, Num],
        Substr => vec![Text, Int],
        SubstrWithSize => vec![Text, Int, Int],
        Ceil | Floor => vec![Num],
        Round | Trunc => vec![Num, Int],
        RegexpExtract => vec![Text, Text, Int, Int],
        RegexpReplace => vec![Text, Text, Text],
        ExtractEpoch | ExtractYear | ExtractMonth | ExtractDay | ExtractHour | ExtractMinute
        | ExtractSecond | ExtractMicrosecond | ExtractMillisecond | ExtractDow | ExtractWeek => {
            vec![Temporal]
        }
        Dayname | Quarter | Function::Date | UnixTimestamp => vec![Temporal],
        FromUnixtime => vec![Int, Text],
        DateFormat => vec![Temporal, Text],
        DatetimeDiff => vec![DateTime, DateTime, Text],
        InList => vec![Scalar, ListOfPrev],
        Coalesce => vec![Scalar, Same],
        Choose => vec![Int, ListOfPrev],
        IsNull => vec![Scalar],
        IsBool => vec![Bool, Bool],
    }
}

pub fn fname(f: Function) -> String {
    match f {
        Function::Concat(_) => "concat".to_string(),
        Function::Random(_) => "random".to_string(),
        Function::Opposite => "opposite".to_string(),
        f => format!("{:?}", f).to_lowercase(),
    }
}

fn small_int(r: &mut Rng) -> dt::Integer {
    // small magnitudes: sizes, positions, digits
    match r.below(4) {
        0 => dt::Integer::from_value(r.range(-3, 6)),
        1 => dt::Integer::from_interval(r.range(-3, 0), r.range(0, 8)),
        2 => dt::Integer::from_values([r.range(-2, 4), r.range(0, 10), r.range(0, 3)]),
        _ => gen_integer(r),
    }
}

fn num_text(r: &mut Rng) -> dt::Text {
    let pool = [
        "0", "1", "-1", "2", "10", "1.5", "-2.5", "1e3", "true", "false", "abc", "", " 3", "007", "t", "f", "yes", "no",
        "9223372036854775807", "2020-01-01", "2020-01-01 10:00:00", "12:30:00",
    ];
    let n = 1 + r.usize(4);
    dt::Text::from_values((0..n).map(|_| r.pick(&pool).to_string()).collect::<Vec<_>>())
}

fn gen_kind(r: &mut Rng, k: K, prev: &Option<DataType>) -> DataType {
    let base = match k {
        K::Num => {
            if r.bool() {
                DataType::Integer(gen_integer(r))
            } else {
                DataType::Float(gen_float(r))
            }
        }
        K::Int => {
            if r.bool() {
                DataType::Integer(small_int(r))
            } else {
                DataType::Integer(gen_integer(r))
            }
        }
        K::Float => DataType::Float(gen_float(r)),
        K::Text => DataType::Text(gen_text(r)),
        K::NumText => match r.below(4) {
            0 => DataType::Text(num_text(r)),
            1 => DataType::Integer(gen_integer(r)),
            2 => DataType::Float(gen_float(r)),
            _ => DataType::Boolean(gen_boolean(r)),
        },
        K::Bool => DataType::Boolean(gen_boolean(r)),
        K::Date => DataType::Date(gen_date(r)),
        K::DateTime => DataType::DateTime(gen_datetime(r)),
        K::Time => DataType::Time(gen_time(r)),
        K::Temporal => match r.below(5) {
            0 | 1 => DataType::Date(gen_date(r)),
            2 | 3 => DataType::DateTime(gen_datetime(r)),
            _ => {
                if r.bool() {
                    DataType::Time(gen_time(r))
                } else {
                    DataType::Text(num_text(r))
                }
            }
        },
        K::Scalar => match r.below(9) {
            0 | 1 => DataType::Integer(gen_integer(r)),
            2 | 3 => DataType::Float(gen_float(r)),
            4 | 5 => DataType::Text(gen_text(r)),
            6 => DataType::Boolean(gen_boolean(r)),
            7 => DataType::Date(gen_date(r)),
            _ => DataType::DateTime(gen_datetime(r)),
        },
        K::Same => match prev {
            Some(p) => {
                let inner = match p {
                    DataType::Optional(o) => o.data_type().clone(),
                    p => p.clone(),
                };
                if r.chance(1, 6) {
                    // mixed int/float promotion
                    match inner {
                        DataType::Integer(_) => DataType::Float(gen_float(r)),
                        DataType::Float(_) => DataType::Integer(gen_integer(r)),
                        other => fresh_like(r, &other),
                    }
                } else {
                    fresh_like(r, &inner)
                }
            }
            None => DataType::Integer(gen_integer(r)),
        },
        K::ListOfPrev => {
            let inner = match prev {
                Some(DataType::Optional(o)) => o.data_type().clone(),
                Some(p) => p.clone(),
                None => DataType::Integer(gen_integer(r)),
            };
            let e = fresh_like(r, &inner);
            let lo = r.usize(3);
            return DataType::list(e, lo, lo + r.usize(3));
        }
    };
    // nullable arguments
    if r.chance(1, 5) {
        DataType::optional(base)
    } else {
        base
    }
}

fn fresh_like(r: &mut Rng, t: &DataType) -> DataType {
    match t {
        DataType::Integer(_) => DataType::Integer(gen_integer(r)),
        DataType::Float(_) => DataType::Float(gen_float(r)),
        DataType::Text(_) => DataType::Text(gen_text(r)),
        DataType::Boolean(_) => DataType::Boolean(gen_boolean(r)),
        DataType::Date(_) => DataType::Date(gen_date(r)),
        DataType::DateTime(_) => DataType::DateTime(gen_datetime(r)),
        DataType::Time(_) => DataType::Time(gen_time(r)),
        other => other.clone(),
    }
}

fn is_trivial_type(t: &DataType) -> bool {
    matches!(t, DataType::Any)
        || matches!(t, DataType::Optional(o) if matches!(o.data_type(), DataType::Any))
}

fn function_case(i: u64, p: &Params, rep: &mut Report) {
    let mut r = p.rng(i);
    let f = ALL_FUNCTIONS[(i as usize) % ALL_FUNCTIONS.len()];
    let name = fname(f);
    let kinds = spec(f);
    let mut args: Vec<DataType> = vec![];
    let mut prev: Option<DataType> = None;
    let hostile = r.chance(1, 6);
    for k in kinds.iter() {
        let t = if hostile {
            gen_kind(&mut r, K::Scalar, &None)
        } else {
            gen_kind(&mut r, *k, &prev)
        };
        prev = Some(t.clone());
        args.push(t);
    }
    // range propagation on S (may legitimately fail if nothing evaluates)
    let img = guarded(|| f.super_image(&args));
    for _ in 0..6 {
        let vals: Option<Vec<Value>> = args.iter().map(|t| gen_value_in(&mut r, t)).collect();
        let vals = match vals {
            Some(v) => v,
            None => return,
        };
        // premise: every argument is structurally in its type
        if !vals
            .iter()
            .zip(args.iter())
            .all(|(v, t)| member_premise(v, t) == Some(true))
        {
            rep.count("premise_not_judged");
            continue;
        }
        let y = match guarded(|| f.value(&vals)) {
            Ok(Ok(y)) => y,
            Ok(Err(_)) => {
                rep.count(&format!("value_err:{}", name));
                continue;
            }
            Err(_) => {
                rep.count(&format!("value_panic:{}", name));
                continue;
            }
        };
        if is_null(&y) && !vals.iter().any(has_null) {
            // the Optional wrapper of the library turns any evaluation error into NULL:
            // a NULL out of non-NULL arguments is "no evaluation", not a result
            rep.count(&format!("value_null_from_nonnull(no evaluation):{}", name));
            continue;
        }
        rep.eval();
        rep.count(&format!("fn:{}", name));
        let case = || {
            json!({"function": name, "argument_types": args.iter().map(|t| t.to_string()).collect::<Vec<_>>(),
                   "argument_values": vals.iter().map(|v| v.to_string()).collect::<Vec<_>>(),
                   "result": y.to_string(), "result_debug": format!("{:?}", y)})
        };
        match &img {
            Ok(Ok(t)) => {
                if !is_trivial_type(t) {
                    rep.nontrivial(hash64(&(name.clone(), format!("{:?}", args), format!("{:?}", vals))));
                }
                if member_tol(&y, t, TOL) == Some(false) && !within_phase_error(&name, &vals, &y, t) {
                    let mut c = case();
                    c["super_image"] = json!(t.to_string());
                    rep.violation(
                        outside_sig(&name, &args, &vals, &y),
                        format!("{}({}) = {} is not in the propagated range {}", name,
                            vals.iter().map(|v| v.to_string()).collect::<Vec<_>>().join(", "), y, t),
                        c,
                    );
                }
                rep.sample(|| { let mut c = case(); c["super_image"] = json!(t.to_string()); c });
            }
            Ok(Err(e)) => {
                let mut c = case();
                c["super_image_error"] = json!(e.to_string());
                rep.violation(
                    format!("C06|propagation-fails|{}|{}", name, arg_sig(&args)),
                    format!("value evaluates to {} but super_image returns an error: {}", y, e),
                    c,
                );
            }
            Err(pi) => {
                let mut c = case();
                c["super_image_panic"] = json!(format!("{} at {}", pi.message, pi.location));
                rep.violation(
                    format!("C06|propagation-panics|{}|{}|{}", name, pi.file, normalise_message(&pi.message)),
                    format!("value evaluates to {} but super_image panics: {} at {}", y, pi.message, pi.location),
                    c,
                );
            }
        }
    }
}

/// `value` and `super_image` reduce the argument of a periodic function modulo 2π along
/// different floating-point paths: the phase error grows with |argument|.
fn within_phase_error(name: &str, vals: &[Value], y: &Value, t: &DataType) -> bool {
    if name != "sin" && name != "cos" {
        return false;
    }
    let x = match vals.first().and_then(crate::oracle::member::num_of) {
        Some(crate::oracle::member::Num::I(i)) => (i as f64).abs(),
        Some(crate::oracle::member::Num::F(f)) => f.abs(),
        None => return false,
    };
    let yv = match crate::oracle::member::num_of(y) {
        Some(crate::oracle::member::Num::F(f)) => f,
        _ => return false,
    };
    let tol = 1e-14 * x + 1e-12;
    match strip(t) {
        DataType::Float(f) => f.iter().any(|[a, b]| a - tol <= yv && yv <= b + tol),
        _ => false,
    }
}

/// Signature of an "outside the range" observation: function + argument variants, except for
/// defect classes that cut across argument types, which get one signature per class.
fn outside_sig(name: &str, args: &[DataType], vals: &[Value], y: &Value) -> String {
    let any_null = vals.iter().any(has_null);
    let opt_arg = args.iter().any(|t| matches!(t, DataType::Optional(_)));
    let y_text = matches!(y, Value::Text(_)) || matches!(y, Value::Optional(o) if matches!(o.as_deref(), Some(Value::Text(_))));
    let float_or_int_to_text = y_text
        && (vals.iter().any(|v| matches!(v, Value::Float(_)) || matches!(v, Value::Optional(o) if matches!(o.as_deref(), Some(Value::Float(_)))))
            || args.iter().any(|t| matches!(strip(t), DataType::Float(_))));
    // a float handed to a text function is rendered as text first
    let float_as_text_arg = ALL_FUNCTIONS
        .iter()
        .find(|f| fname(**f) == name)
        .map(|f| spec(*f))
        .map(|kinds| {
            kinds.iter().zip(args.iter()).any(|(k, t)| *k == K::Text && matches!(strip(t), DataType::Float(_)))
        })
        .unwrap_or(false);
    // a text holding "-0" can only come from rendering a negative zero
    let negative_zero_text = match y {
        Value::Text(t) => t.contains("-0"),
        Value::Optional(o) => matches!(o.as_deref(), Some(Value::Text(t)) if t.contains("-0")),
        _ => false,
    };
    let float_or_int_to_text = float_or_int_to_text || float_as_text_arg || negative_zero_text;
    let mixed_numeric = {
        let ints = args.iter().filter(|t| matches!(strip(t), DataType::Integer(_) | DataType::Boolean(_))).count();
        let floats = args.iter().filter(|t| matches!(strip(t), DataType::Float(_))).count();
        ints > 0 && floats > 0
    };
    let subnormal = vals.iter().any(|v| match crate::oracle::member::num_of(v) {
        Some(crate::oracle::member::Num::F(f)) => f != 0.0 && f.abs() < f64::MIN_POSITIVE,
        _ => false,
    });
    let huge = vals.iter().chain(std::iter::once(y)).any(|v| match crate::oracle::member::num_of(v) {
        Some(crate::oracle::member::Num::I(i)) => i.unsigned_abs() > (1u64 << 53),
        Some(crate::oracle::member::Num::F(f)) => f.abs() > 9.0e15,
        None => false,
    });
    match name {
        "case" | "eq" | "noteq" | "gt" | "lt" | "gteq" | "lteq" | "and" | "or" | "coalesce" | "inlist"
            if any_null || opt_arg =>
        {
            format!("C06|outside|{}|NULL among the arguments (value() does not propagate NULL like the range does)", name)
        }
        "eq" | "noteq" | "gt" | "lt" | "gteq" | "lteq" | "least" | "greatest" if huge => {
            format!("C06|outside|{}|magnitude beyond 2^53 (integer overflow / float rounding)", name)
        }
        "eq" | "noteq" | "gt" | "lt" | "gteq" | "lteq" if mixed_numeric => {
            format!("C06|outside|{}|mixed integer/float comparison", name)
        }
        "plus" | "minus" | "multiply" | "opposite" | "abs" | "pow" | "divide" if huge => {
            format!("C06|outside|{}|magnitude beyond 2^53 (integer overflow / float rounding)", name)
        }
        "upper" | "lower" => format!("C06|outside|{}|case mapping applied to the bounds of a text interval", name),
        _ if float_or_int_to_text => "C06|outside|(any text-producing function)|float rendered as text".to_string(),
        _ if subnormal => format!("C06|outside|{}|subnormal argument", name),
        _ => format!("C06|outside|{}|{}", name, arg_sig(args)),
    }
}

fn variant_exact(y: &Value, t: &DataType) -> bool {
    match (y, t) {
        (Value::Optional(o), DataType::Optional(ot)) => match o.as_deref() {
            None => true,
            Some(x) => variant_exact(x, ot.data_type()),
        },
        (Value::Optional(_), _) => false,
        (y, DataType::Optional(ot)) => variant_exact(y, ot.data_type()),
        (Value::Boolean(_), DataType::Boolean(_))
        | (Value::Integer(_), DataType::Integer(_))
        | (Value::Float(_), DataType::Float(_))
        | (Value::Text(_), DataType::Text(_))
        | (Value::Date(_), DataType::Date(_))
        | (Value::Time(_), DataType::Time(_))
        | (Value::DateTime(_), DataType::DateTime(_))
        | (Value::Duration(_), DataType::Duration(_)) => true,
        _ => false,
    }
}

fn strip(t: &DataType) -> &DataType {
    match t {
        DataType::Optional(o) => o.data_type(),
        t => t,
    }
}

/// Argument variants as signature material
fn arg_sig(args: &[DataType]) -> String {
    args.iter()
        .map(|t| match t {
            DataType::Optional(o) => format!("Option<{}>", crate::mon::c11::vname(o.data_type())),
            t => crate::mon::c11::vname(t).to_string(),
        })
        .collect::<Vec<_>>()
        .join(",")
}

// ------------------------------------------------------------------ aggregates

pub const ALL_AGGREGATES: &[Aggregate] = &[
    Aggregate::Min,
    Aggregate::Max,
    Aggregate::Median,
    Aggregate::NUnique,
    Aggregate::First,
    Aggregate::Last,
    Aggregate::Mean,
    Aggregate::MeanDistinct,
    Aggregate::List,
    Aggregate::Count,
    Aggregate::CountDistinct,
    Aggregate::Quantile(0.5),
    Aggregate::Quantiles(&[0.25, 0.75]),
    Aggregate::Sum,
    Aggregate::SumDistinct,
    Aggregate::AggGroups,
    Aggregate::Std,
    Aggregate::StdDistinct,
    Aggregate::Var,
    Aggregate::VarDistinct,
];

fn agg_name(a: Aggregate) -> String {
    // exhaustive on purpose
    match a {
        Aggregate::Min => "min",
        Aggregate::Max => "max",
        Aggregate::Median => "median",
        Aggregate::NUnique => "n_unique",
        Aggregate::First => "first",
        Aggregate::Last => "last",
        Aggregate::Mean => "mean",
        Aggregate::MeanDistinct => "mean_distinct",
        Aggregate::List => "list",
        Aggregate::Count => "count",
        Aggregate::CountDistinct => "count_distinct",
        Aggregate::Quantile(_) => "quantile",
        Aggregate::Quantiles(_) => "quantiles",
        Aggregate::Sum => "sum",
        Aggregate::SumDistinct => "sum_distinct",
        Aggregate::AggGroups => "agg_groups",
        Aggregate::Std => "std",
        Aggregate::StdDistinct => "std_distinct",
        Aggregate::Var => "var",
        Aggregate::VarDistinct => "var_distinct",
    }
    .to_string()
}

fn aggregate_case(i: u64, p: &Params, rep: &mut Report) {
    let mut r = p.rng(i ^ 0xA66_0000_0000);
    let a = ALL_AGGREGATES[((i / 8) * 2 + (i % 8)) as usize % ALL_AGGREGATES.len()];
    let name = agg_name(a);
    let elem = match r.below(8) {
        0 | 1 | 2 => DataType::Integer(gen_integer(&mut r)),
        3 | 4 | 5 => DataType::Float(gen_float(&mut r)),
        6 => DataType::Text(gen_text(&mut r)),
        _ => gen_kind(&mut r, K::Scalar, &None),
    };
    let elem = if r.chance(1, 5) { DataType::optional(elem) } else { elem };
    let lo = r.usize(4);
    let hi = lo + r.usize(5);
    let set = DataType::list(elem.clone(), lo, hi);
    let img = guarded(|| a.super_image(&set));
    for _ in 0..5 {
        let n = r.range(lo as i64, hi as i64);
        let vals: Option<Vec<Value>> = (0..n).map(|_| gen_value_in(&mut r, &elem)).collect();
        let vals = match vals {
            Some(v) => v,
            None => return,
        };
        if !vals.iter().all(|v| member_premise(v, &elem) == Some(true)) {
            continue;
        }
        let arg = Value::list(vals.clone());
        let y = match guarded(|| a.value(&arg)) {
            Ok(Ok(y)) => y,
            Ok(Err(_)) => {
                rep.count(&format!("value_err:agg:{}", name));
                continue;
            }
            Err(_) => {
                rep.count(&format!("value_panic:agg:{}", name));
                continue;
            }
        };
        if is_null(&y) && !vals.iter().any(has_null) {
            rep.count(&format!("value_null_from_nonnull(no evaluation):agg:{}", name));
            continue;
        }
        rep.eval();
        rep.count(&format!("agg:{}", name));
        let case = json!({"aggregate": name, "argument_type": set.to_string(), "argument_value": arg.to_string(),
            "result": y.to_string(), "result_debug": format!("{:?}", y)});
        match &img {
            Ok(Ok(t)) => {
                if !is_trivial_type(t) {
                    rep.nontrivial(hash64(&(name.clone(), set.to_string(), arg.to_string())));
                }
                let cancellation = matches!(
                    a,
                    Aggregate::Std | Aggregate::StdDistinct | Aggregate::Var | Aggregate::VarDistinct
                ) && {
                    // sum of squares minus square of sum: absolute error ~ 1e-16 * n * max^2
                    let m = vals.iter().filter_map(|v| crate::oracle::member::num_of(v)).map(|n| match n {
                        crate::oracle::member::Num::I(i) => (i as f64).abs(),
                        crate::oracle::member::Num::F(f) => f.abs(),
                    }).fold(0.0f64, f64::max);
                    let yv = match crate::oracle::member::num_of(&y) { Some(crate::oracle::member::Num::F(f)) => f.abs(), _ => 0.0 };
                    let err = 1e-12 * m * m * (vals.len() as f64 + 1.0);
                    let is_std = matches!(a, Aggregate::Std | Aggregate::StdDistinct);
                    // the value itself is within the rounding error of its own computation, or it exceeds the
                    // upper end of the range by less than that error (for std: y^2 - max^2 <= err)
                    let upper = match strip(t) {
                        DataType::Float(f) => f.max().copied(),
                        _ => None,
                    };
                    let small = yv <= if is_std { err.sqrt() } else { err };
                    let just_above = upper.map_or(false, |u| yv > u && if is_std { yv * yv - u * u <= err } else { yv - u <= err });
                    small || just_above
                };
                if cancellation {
                    rep.count("agg_std_var_within_cancellation_error(not judged)");
                } else if member_tol(&y, t, TOL) == Some(false) {
                    let mut c = case.clone();
                    c["super_image"] = json!(t.to_string());
                    rep.violation(
                        if vals.is_empty() {
                            format!("C06|outside|agg:{}|empty list", name)
                        } else if vals.iter().chain(std::iter::once(&y)).any(|v| match crate::oracle::member::num_of(v) {
                            Some(crate::oracle::member::Num::I(i)) => i.unsigned_abs() > (1u64 << 53),
                            Some(crate::oracle::member::Num::F(f)) => f.abs() > 9.0e15,
                            None => false,
                        }) {
                            format!("C06|outside|agg:{}|magnitude beyond 2^53 (integer overflow / float rounding)", name)
                        } else {
                            format!("C06|outside|agg:{}|{}", name, arg_sig(&[elem.clone()]))
                        },
                        format!("{}({}) = {} is not in the propagated range {}", name, arg, y, t),
                        c,
                    );
                }
            }
            Ok(Err(e)) => {
                let mut c = case.clone();
                c["super_image_error"] = json!(e.to_string());
                rep.violation(
                    format!("C06|propagation-fails|agg:{}|{}", name, arg_sig(&[elem.clone()])),
                    format!("value evaluates to {} but super_image returns an error: {}", y, e),
                    c,
                );
            }
            Err(pi) => {
                let mut c = case.clone();
                c["super_image_panic"] = json!(format!("{} at {}", pi.message, pi.location));
                rep.violation(
                    format!("C06|propagation-panics|agg:{}|{}|{}", name, pi.file, normalise_message(&pi.message)),
                    format!("value evaluates to {} but super_image panics: {} at {}", y, pi.message, pi.location),
                    c,
                );
            }
        }
    }
}

// ------------------------------------------------------------------ expression trees

const COLS: &[&str] = &["x", "y", "s", "b", "d"];

fn col_types(r: &mut Rng) -> Vec<(String, DataType)> {
    let opt = |r: &mut Rng, t: DataType| if r.chance(1, 5) { DataType::optional(t) } else { t };
    vec![
        ("x".to_string(), { let t = DataType::Integer(gen_integer(r)); opt(r, t) }),
        ("y".to_string(), { let t = DataType::Float(gen_float(r)); opt(r, t) }),
        ("s".to_string(), { let t = DataType::Text(gen_text(r)); opt(r, t) }),
        ("b".to_string(), { let t = DataType::Boolean(gen_boolean(r)); opt(r, t) }),
        ("d".to_string(), { let t = DataType::Date(gen_date(r)); opt(r, t) }),
    ]
}

#[derive(Clone, Copy, PartialEq)]
enum T {
    N,
    S,
    B,
}

fn lit(r: &mut Rng, t: T) -> Expr {
    match t {
        T::N => {
            if r.bool() {
                Expr::val(int_any(r).clamp(-1000, 1000))
            } else {
                Expr::val((float_any(r)).clamp(-1e6, 1e6))
            }
        }
        T::S => Expr::val(text_any(r)),
        T::B => Expr::val(r.bool()),
    }
}

fn gen_expr(r: &mut Rng, t: T, depth: u32) -> Expr {
    let f = |func: Function, args: Vec<Expr>| {
        Expr::Function(qrlew::expr::Function::new(func, args.into_iter().map(Arc::new).collect()))
    };
    if depth == 0 || r.chance(1, 4) {
        return match (t, r.below(3)) {
            (T::N, 0) => Expr::col("x"),
            (T::N, 1) => Expr::col("y"),
            (T::S, 0 | 1) => Expr::col("s"),
            (T::B, 0 | 1) => Expr::col("b"),
            (t, _) => lit(r, t),
        };
    }
    let d = depth - 1;
    match t {
        T::N => match r.below(20) {
            0 => f(Function::Plus, vec![gen_expr(r, T::N, d), gen_expr(r, T::N, d)]),
            1 => f(Function::Minus, vec![gen_expr(r, T::N, d), gen_expr(r, T::N, d)]),
            2 => f(Function::Multiply, vec![gen_expr(r, T::N, d), gen_expr(r, T::N, d)]),
            3 => f(Function::Divide, vec![gen_expr(r, T::N, d), gen_expr(r, T::N, d)]),
            4 => f(Function::Abs, vec![gen_expr(r, T::N, d)]),
            5 => f(Function::Opposite, vec![gen_expr(r, T::N, d)]),
            6 => f(Function::Exp, vec![gen_expr(r, T::N, d)]),
            7 => f(Function::Sqrt, vec![f(Function::Abs, vec![gen_expr(r, T::N, d)])]),
            8 => f(Function::Sin, vec![gen_expr(r, T::N, d)]),
            9 => f(Function::Cos, vec![gen_expr(r, T::N, d)]),
            10 => f(Function::Least, vec![gen_expr(r, T::N, d), gen_expr(r, T::N, d)]),
            11 => f(Function::Greatest, vec![gen_expr(r, T::N, d), gen_expr(r, T::N, d)]),
            12 => f(Function::Case, vec![gen_expr(r, T::B, d), gen_expr(r, T::N, d), gen_expr(r, T::N, d)]),
            13 => f(Function::CharLength, vec![gen_expr(r, T::S, d)]),
            14 => f(Function::Floor, vec![gen_expr(r, T::N, d)]),
            15 => f(Function::Ceil, vec![gen_expr(r, T::N, d)]),
            16 => f(Function::Sign, vec![gen_expr(r, T::N, d)]),
            17 => f(Function::Coalesce, vec![gen_expr(r, T::N, d), gen_expr(r, T::N, d)]),
            18 => f(Function::Ln, vec![f(Function::Plus, vec![f(Function::Abs, vec![gen_expr(r, T::N, d)]), Expr::val(1.0)])]),
            _ => f(Function::Pow, vec![gen_expr(r, T::N, d), Expr::val(r.range(0, 3))]),
        },
        T::S => match r.below(6) {
            0 => f(Function::Lower, vec![gen_expr(r, T::S, d)]),
            1 => f(Function::Upper, vec![gen_expr(r, T::S, d)]),
            2 => f(Function::StringConcat, vec![gen_expr(r, T::S, d), gen_expr(r, T::S, d)]),
            3 => f(Function::CastAsText, vec![gen_expr(r, T::N, d)]),
            4 => f(Function::Case, vec![gen_expr(r, T::B, d), gen_expr(r, T::S, d), gen_expr(r, T::S, d)]),
            _ => f(Function::Concat(2), vec![gen_expr(r, T::S, d), gen_expr(r, T::N, d)]),
        },
        T::B => match r.below(10) {
            0 => f(Function::Gt, vec![gen_expr(r, T::N, d), gen_expr(r, T::N, d)]),
            1 => f(Function::LtEq, vec![gen_expr(r, T::N, d), gen_expr(r, T::N, d)]),
            2 => f(Function::Eq, vec![gen_expr(r, T::N, d), gen_expr(r, T::N, d)]),
            3 => f(Function::And, vec![gen_expr(r, T::B, d), gen_expr(r, T::B, d)]),
            4 => f(Function::Or, vec![gen_expr(r, T::B, d), gen_expr(r, T::B, d)]),
            5 => f(Function::Not, vec![gen_expr(r, T::B, d)]),
            6 => f(Function::Eq, vec![gen_expr(r, T::S, d), gen_expr(r, T::S, d)]),
            7 => f(Function::IsNull, vec![gen_expr(r, T::N, d)]),
            8 => f(Function::Lt, vec![gen_expr(r, T::S, d), gen_expr(r, T::S, d)]),
            _ => f(Function::NotEq, vec![gen_expr(r, T::N, d), gen_expr(r, T::N, d)]),
        },
    }
}

/// Evaluate a sub-expression bottom-up; report at the lowest node whose value falls outside its
/// propagated range while all its arguments were inside theirs. Returns (value, image) when both exist.
fn check_node(
    e: &Expr,
    set: &DataType,
    rowv: &Value,
    rep: &mut Report,
    reported: &mut bool,
) -> Option<(Value, DataType)> {
    let (func, children): (Option<Function>, Vec<Expr>) = match e {
        Expr::Function(f) => (Some(f.function()), f.arguments()),
        _ => (None, vec![]),
    };
    let mut child_res = vec![];
    for c in children.iter() {
        child_res.push(check_node(c, set, rowv, rep, reported));
    }
    if *reported {
        return None;
    }
    let y = match guarded(|| e.value(rowv)) {
        Ok(Ok(y)) => y,
        _ => return None,
    };
    let img = guarded(|| e.super_image(set));
    let name = func.map(fname).unwrap_or_else(|| "leaf".to_string());
    let child_ok: Option<Vec<(Value, DataType)>> = child_res.into_iter().collect();
    let (cvals, cimgs): (Vec<Value>, Vec<DataType>) = match child_ok {
        Some(v) => v.into_iter().unzip(),
        None => return None,
    };
    if func.is_some() && is_null(&y) && !cvals.iter().any(has_null) {
        // swallowed evaluation error
        return None;
    }
    let case = || {
        json!({"function": name, "inside_expression": e.to_string(),
               "argument_types": cimgs.iter().map(|t| t.to_string()).collect::<Vec<_>>(),
               "argument_values": cvals.iter().map(|v| v.to_string()).collect::<Vec<_>>(),
               "result": y.to_string(), "result_debug": format!("{:?}", y)})
    };
    match img {
        Ok(Ok(t)) => {
            if func.is_some() {
                rep.eval();
                rep.count(&format!("fn_in_tree:{}", name));
            }
            if member_tol(&y, &t, TOL) == Some(false) && within_phase_error(&name, &cvals, &y, &t) {
                rep.count("tree_node_inside_by_tolerance_only(parents not judged)");
                return None;
            }
            if member_tol(&y, &t, TOL) == Some(false) {
                *reported = true;
                let mut c = case();
                c["super_image"] = json!(t.to_string());
                rep.violation(
                    outside_sig(&name, &cimgs, &cvals, &y),
                    format!("{}({}) = {} is not in the propagated range {}", name,
                        cvals.iter().map(|v| v.to_string()).collect::<Vec<_>>().join(", "), y, t),
                    c,
                );
                return None;
            }
            if !variant_exact(&y, &t) {
                // e.g. an integer value flowing where the range says float, or some(x) where the range is
                // not optional: value() treats such arguments structurally (1 = 1.0 is false), which says
                // nothing about range propagation of the parents
                rep.count("tree_node_value_variant_differs_from_range_variant(parents not judged)");
                return None;
            }
            if crate::oracle::member::member(&y, &t) == Some(false) {
                // inside only thanks to the float tolerance: parents would be judged against a
                // range that is off by the same rounding, so stop here
                rep.count("tree_node_inside_by_tolerance_only(parents not judged)");
                return None;
            }
            Some((y, t))
        }
        Ok(Err(err)) => {
            *reported = true;
            let mut c = case();
            c["super_image_error"] = json!(err.to_string());
            rep.violation(
                format!("C06|propagation-fails|{}|{}", name, arg_sig(&cimgs)),
                format!("value evaluates to {} but super_image returns an error: {}", y, err),
                c,
            );
            None
        }
        Err(pi) => {
            *reported = true;
            let mut c = case();
            c["super_image_panic"] = json!(format!("{} at {}", pi.message, pi.location));
            rep.violation(
                format!("C06|propagation-panics|{}|{}|{}", name, pi.file, normalise_message(&pi.message)),
                format!("value evaluates to {} but super_image panics: {} at {}", y, pi.message, pi.location),
                c,
            );
            None
        }
    }
}

fn tree_case(i: u64, p: &Params, rep: &mut Report) {
    let mut r = p.rng(i ^ 0x7733_0000_0000);
    let cols = col_types(&mut r);
    let set = DataType::structured(cols.clone());
    let t = match r.below(3) {
        0 => T::N,
        1 => T::S,
        _ => T::B,
    };
    let depth = 1 + r.below(4) as u32;
    let e = gen_expr(&mut r, t, depth);
    for _ in 0..5 {
        let row: Option<Vec<(String, Value)>> = cols
            .iter()
            .map(|(n, t)| gen_value_in(&mut r, t).map(|v| (n.clone(), v)))
            .collect();
        let row = match row {
            Some(x) => x,
            None => return,
        };
        if !row.iter().zip(cols.iter()).all(|((_, v), (_, t))| member_premise(v, t) == Some(true)) {
            continue;
        }
        let rowv = Value::structured(row.clone());
        let mut reported = false;
        let res = check_node(&e, &set, &rowv, rep, &mut reported);
        rep.count("tree_evaluations");
        if let Some((y, t)) = res {
            if !is_trivial_type(&t) {
                rep.nontrivial(hash64(&(e.to_string(), set.to_string(), rowv.to_string())));
            }
            if rep.samples.len() < 6 && depth >= 2 {
                rep.samples.push(json!({"expression": e.to_string(), "column_types": set.to_string(),
                    "row": rowv.to_string(), "result": y.to_string(), "super_image": t.to_string()}));
            }
        }
    }
    let _ = COLS;
}

fn top_function(e: &Expr) -> String {
    match e {
        Expr::Function(f) => fname(f.function()),
        Expr::Column(_) => "column".into(),
        Expr::Value(_) => "value".into(),
        _ => "other".into(),
    }
}

pub fn run(p: &Params) -> Report {
    let mut rep = Report::for_params("C06", p);
    let pp = p.clone();
    drive(
        p.cases,
        &mut rep,
        &|i, rep| match i % 8 {
            0 | 1 => aggregate_case(i, &pp, rep),
            2 | 3 => tree_case(i, &pp, rep),
            _ => function_case(i / 8 * 4 + (i % 8 - 4), &pp, rep),
        },
        &|i, pi, rep| {
            rep.count("harness_level_panics");
            if rep.notes.len() < 5 {
                rep.notes.push(format!("panic outside guarded calls in case {}: {} at {}", i, pi.message, pi.location));
            }
        },
    );
    // every function and aggregate of the enums must have been evaluated at least once per run
    rep
}
