//! C02 part 3 — channel-cut non-interference: with the sanctioned channels (noised aggregate
//! columns, thresholded key release) pinned, the result of the DP-rewritten query must not depend
//! on the protected tables at all.
use crate::exec::sqlite::{Db, RandomMode, Rows};
use crate::gen::catalog::*;
use crate::gen::dpsql::*;
use crate::gen::types::gen_value_in;
use crate::mon::dpq::*;
use crate::mon::execq::{compile, render, Compiled};
use crate::util::*;
use qrlew::data_type::value::Value;
use qrlew::differential_privacy::group_by::COUNT_DISTINCT_PID;
use qrlew::differential_privacy::DpParameters;
use serde_json::json;
use std::collections::{HashMap, HashSet};

/// Same public tables, thoroughly different protected tables (same declared schemas)
fn perturb(w: &DpWorld, r: &mut Rng, variant: u64) -> DpWorld {
    let mut w2 = w.clone();
    match variant {
        0 => {
            // everything protected is re-drawn: half of the rows dropped, values re-drawn, a new unit added
            for name in ["users", "orders", "items", "events", "visits"] {
                let t = w2.cat.table_mut(name).unwrap();
                let cols = t.cols.clone();
                let mut rows = vec![];
                for row in t.rows.iter() {
                    if r.bool() {
                        continue;
                    }
                    let mut row = row.clone();
                    for (ci, c) in cols.iter().enumerate() {
                        let keyish = c.name == "id" || c.name.ends_with("_id");
                        if !keyish {
                            if let Some(v) = gen_value_in(r, &c.ty) {
                                row[ci] = strip_some(&v);
                            }
                        }
                    }
                    rows.push(row);
                }
                t.rows = rows;
            }
            let users = w2.cat.table_mut("users").unwrap();
            if let Some(mut row) = users.rows.first().cloned().or_else(|| w.cat.table("users").unwrap().rows.first().cloned()) {
                row[0] = Value::integer(777);
                users.rows.push(row);
            }
            let orders = w2.cat.table_mut("orders").unwrap();
            let (uidc, idc) = (orders.col("user_id").unwrap(), orders.col("id").unwrap());
            let templ: Vec<Vec<Value>> = w.cat.table("orders").unwrap().rows.iter().take(3).cloned().collect();
            for (k, mut row) in templ.into_iter().enumerate() {
                row[uidc] = Value::integer(777);
                row[idc] = Value::integer(70000 + k as i64);
                orders.rows.push(row);
            }
        }
        1 => {
            // one cell changed
            let t = w2.cat.table_mut("orders").unwrap();
            if !t.rows.is_empty() {
                let ri = r.usize(t.rows.len());
                let ci = t.col("amount").unwrap();
                if let Some(v) = gen_value_in(r, &t.cols[ci].ty.clone()) {
                    t.rows[ri][ci] = strip_some(&v);
                }
            }
            let t = w2.cat.table_mut("users").unwrap();
            if !t.rows.is_empty() {
                let ri = r.usize(t.rows.len());
                let ci = t.col("age").unwrap();
                if let Some(v) = gen_value_in(r, &t.cols[ci].ty.clone()) {
                    t.rows[ri][ci] = strip_some(&v);
                }
            }
        }
        2 => {
            // one unit removed
            let units = w.units();
            if !units.is_empty() {
                let u = units[r.usize(units.len())].clone();
                w2 = w.without(&u);
            }
            let ev = w2.cat.table_mut("events").unwrap();
            if !ev.rows.is_empty() {
                ev.rows.remove(0);
            }
        }
        _ => {
            // all protected tables emptied
            for name in ["users", "orders", "items", "events", "visits"] {
                w2.cat.table_mut(name).unwrap().rows.clear();
            }
        }
    }
    w2
}

fn load_with_sd(w: &DpWorld, db: &Db, sd_source: &DpWorld) -> Result<(), String> {
    w.cat.load(db)?;
    // synthetic replacement tables are public and fixed: always derived from the same source
    for t in sd_source.cat.tables.iter() {
        let cols: Vec<(String, &'static str)> = t.cols.iter().map(|c| (c.name.clone(), c.sql_type())).collect();
        db.load_table(&format!("{}_sd", t.name), &cols, &t.rows)?;
    }
    Ok(())
}

fn multiset(rows: &Rows, cols: &[usize]) -> Vec<String> {
    let mut v: Vec<String> = rows.rows.iter().map(|r| cols.iter().map(|i| r[*i].key()).collect::<Vec<_>>().join("|")).collect();
    v.sort();
    v
}

pub fn check(q: &DpQuery, w: &DpWorld, params: &DpParameters, sd_tables: Option<&[String]>, r: &mut Rng, rep: &mut Report) {
    let with_sd = sd_tables.is_some();
    let sql = &q.sql;
    let relations = w.cat.relations();
    let rel = match compile(sql, &relations) {
        Compiled::Ok(r) => r,
        _ => {
            rep.count("parse_error_or_panic");
            return;
        }
    };
    let sd = sd_tables.map(|t| synthetic_data_for(w, t));
    let c = match dp_compile(&rel, &relations, sd, w.privacy_unit(), params.clone()) {
        Outcome::Ok(c) => c,
        Outcome::Err(_) => {
            rep.count("dp_refused");
            return;
        }
        Outcome::Panic(_) => {
            rep.count("dp_panic");
            return;
        }
    };
    let (noises, taus) = mechanisms(&c.relation);
    let rendered = match render(&c.relation) {
        Ok(s) => s,
        Err(_) => return,
    };
    // sanctioned channels
    let s2: HashMap<String, &NoiseNode> = noises
        .iter()
        .filter(|n| n.columns.iter().any(|(c, s)| c != COUNT_DISTINCT_PID && *s > 0.0))
        .map(|n| (n.node.clone(), n))
        .collect();
    // a key-release filter is a sanctioned channel only if the count it thresholds is a noised one
    let noisy_counts: HashSet<String> = noises
        .iter()
        .filter(|n| n.columns.iter().any(|(c, s)| c == COUNT_DISTINCT_PID && *s > 0.0))
        .map(|n| n.node.clone())
        .collect();
    let s1: HashSet<String> = taus.iter().filter(|t| noisy_counts.contains(&t.input)).map(|t| t.node.clone()).collect();
    if s1.len() < taus.len() {
        rep.count("threshold_filters_on_an_un-noised_count(not sanctioned)");
    }
    let noise_names: HashSet<String> = noises.iter().map(|n| n.node.clone()).collect();
    let script = |db: &Db, name: &str| {
        if noise_names.contains(name) {
            db.set_random(RandomMode::Const(0.37));
        } else {
            db.set_random(RandomMode::Counter);
        }
    };
    let sd_source = w.clone();
    let db = Db::new(true, RandomMode::Counter);
    if load_with_sd(w, &db, &sd_source).is_err() {
        return;
    }
    let base = match db.staged_with(&rendered, &mut |db, n| script(db, n), &mut |_, _, _| Ok(())) {
        Ok(x) => x,
        Err(e) => {
            rep.count("execution_error");
            if rep.notes.len() < 6 {
                rep.notes.push(format!("execution error: {} on {}", e.chars().take(300).collect::<String>(), sql));
            }
            return;
        }
    };
    let base_stages: HashMap<String, Rows> = base.0.iter().cloned().collect();
    let root_kind = c.events.iter().find(|e| e.kind == "rewrite_begin").and_then(|e| e.str("rule")).unwrap_or("?").to_string();
    for variant in 0..4u64 {
        let w2 = perturb(w, r, variant);
        let db2 = Db::new(true, RandomMode::Counter);
        if load_with_sd(&w2, &db2, &sd_source).is_err() {
            continue;
        }
        let mut leak: Option<String> = None;
        let run2 = db2.staged_with(
            &rendered,
            &mut |db, n| script(db, n),
            &mut |db, name, _cols| {
                if s1.contains(name) {
                    if let Some(rows) = base_stages.get(name) {
                        db.overwrite_stage(name, rows)?;
                    }
                } else if let Some(n) = s2.get(name) {
                    // the non-noised columns must already be equal, then the noised ones are pinned
                    let mine = db.query(&format!("SELECT * FROM temp.{}", crate::exec::sqlite::quote_ident(name)))?;
                    if let Some(theirs) = base_stages.get(name) {
                        let plain: Vec<usize> = n.plain_columns.iter().filter_map(|c| mine.col(c)).collect();
                        let plain_b: Vec<usize> = n.plain_columns.iter().filter_map(|c| theirs.col(c)).collect();
                        if multiset(&mine, &plain) != multiset(theirs, &plain_b) && leak.is_none() {
                            leak = Some(format!("the non-noised columns {:?} of noise node {} differ between the two databases", n.plain_columns, name));
                        }
                        db.overwrite_stage(name, theirs)?;
                    }
                }
                Ok(())
            },
        );
        let (_, result2) = match run2 {
            Ok(x) => x,
            Err(_) => {
                rep.count("execution_error_on_variant");
                continue;
            }
        };
        rep.eval();
        rep.count(&format!("variant:{}", variant));
        rep.count(&format!("root:{}", root_kind));
        let all_b: Vec<usize> = (0..base.1.columns.len()).collect();
        let all_2: Vec<usize> = (0..result2.columns.len()).collect();
        let differs = multiset(&base.1, &all_b) != multiset(&result2, &all_2);
        if differs || leak.is_some() {
            let first_diff = base
                .0
                .iter()
                .map(|(n, _)| n.clone())
                .find(|n| !s1.contains(n) && !s2.contains_key(n));
            rep.violation(
                format!("C02|non-interference|result depends on protected rows outside the sanctioned channels|root {}", root_kind),
                format!(
                    "with every noised aggregate column and every thresholded key set pinned, the result still changes when the protected tables change (variant {}){}",
                    variant,
                    leak.as_ref().map(|l| format!("; {}", l)).unwrap_or_default()
                ),
                json!({"catalog": w.cat.to_json(30), "other_catalog": w2.cat.to_json(30), "query": sql, "dp_parameters": format!("{:?}", params), "synthetic_data": with_sd, "synthetic_data_declared_for": sd_tables,
                       "rendered": rendered, "result_on_D": base.1.to_json(30), "result_on_other": result2.to_json(30),
                       "channels": {"noise_nodes": s2.keys().collect::<Vec<_>>(), "threshold_nodes": s1.iter().collect::<Vec<_>>()}, "first_unpinned_stage": first_diff}),
            );
            return;
        }
    }
    if !s2.is_empty() || !s1.is_empty() {
        rep.nontrivial(hash64(&(sql.clone(), format!("{:?}", params), with_sd, w.cat.tables.iter().map(|t| t.rows.len()).collect::<Vec<_>>())));
    }
    rep.count("queries_with_channels_cut");
    rep.sample(|| json!({"query": sql, "root_rule": root_kind, "noise_nodes": s2.len(), "threshold_nodes": s1.len(), "result_rows": base.1.rows.len()}));
}

pub fn run_cases(p: &Params, i: u64, rep: &mut Report) {
    let mut r = p.rng(i ^ 0xC02C_0000_0000);
    let opts = DpWorldOptions {
        n_users: 3 + r.usize(6),
        max_orders_per_user: 4,
        max_items_per_order: 2,
        n_events: 2 + r.usize(6),
        dangling: false,
        nullable: true,
    };
    let w = gen_dp_world(&mut r, &opts);
    // aggregations most of the time; plain projections / joins / set operations too (with synthetic
    // data the DP entry point answers those from the synthetic tables)
    let q = if r.chance(1, 4) { gen_pup_query(&mut r, &w) } else { gen_dp_query(&mut r, &w) };
    let params = if r.chance(1, 8) {
        // degenerate budgets: the compiler must refuse (or fail), never fall back to an exact answer
        match r.below(4) {
            0 => DpParameters::new(1.0, 0.0, 0.5, 5.0, 1.0, 3),
            1 => DpParameters::new(0.0, 1e-3, 0.5, 5.0, 1.0, 3),
            2 => DpParameters::new(1.0, 1e-3, 1.0, 5.0, 1.0, 3),
            _ => DpParameters::new(1.0, 1e-3, 0.0, 5.0, 1.0, 3),
        }
    } else {
        DpParameters::new(*r.pick(&[1.0, 50.0, 400.0]), *r.pick(&[1e-5, 1e-3, 0.05]), 0.5, *r.pick(&[1.0, 5.0, 100.0]), 1.0, *r.pick(&[1u64, 3, 5]))
    };
    // synthetic data: none, declared for every table, or for some of them only
    let all: Vec<String> = w.cat.tables.iter().map(|t| t.name.clone()).collect();
    let sd_tables: Option<Vec<String>> = match r.below(6) {
        0 | 1 => Some(all),
        2 => Some(all.into_iter().filter(|_| r.bool()).collect()),
        _ => None,
    };
    check(&q, &w, &params, sd_tables.as_deref(), &mut r, rep);
}
