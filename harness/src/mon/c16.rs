//! C16 — compilation is deterministic and rendering is a fixpoint.
use crate::exec::sqlite::{Db, RandomMode};
use crate::gen::catalog::*;
use crate::gen::dpsql::*;
use crate::gen::sql::gen_query;
use crate::mon::dpq::*;
use crate::mon::execq::{compile, render, Compiled};
use crate::util::*;
use qrlew::data_type::DataTyped;
use qrlew::hierarchy::Hierarchy;
use qrlew::relation::{Relation, Variant as _};
use qrlew::verif_hooks;
use serde_json::json;
use std::sync::{Arc, Barrier};

#[derive(Clone)]
struct Compiled1 {
    relation: Option<Relation>,
    display: String,
    rendered: String,
    counter_keys: Vec<String>,
}

fn compile1(sql: &str, relations: &Hierarchy<Arc<Relation>>) -> Compiled1 {
    verif_hooks::install_sink();
    let c = compile(sql, relations);
    let ev = verif_hooks::take_events();
    let counter_keys: Vec<String> = ev.iter().filter(|e| e.kind == "namer_count").filter_map(|e| e.str("key").map(|s| s.to_string())).collect();
    match c {
        Compiled::Ok(r) => {
            let rendered = render(&r).unwrap_or_else(|p| format!("<render panic: {}>", p.message));
            Compiled1 { display: r.to_string(), rendered, relation: Some(r), counter_keys }
        }
        Compiled::Err(e) => Compiled1 { relation: None, display: format!("<error: {}>", e.lines().next().unwrap_or("")), rendered: String::new(), counter_keys },
        Compiled::Panic(p) => Compiled1 { relation: None, display: format!("<panic: {}>", normalise_message(&p.message)), rendered: String::new(), counter_keys },
    }
}

fn same(a: &Compiled1, b: &Compiled1) -> Result<(), String> {
    if a.display != b.display {
        return Err("the Display form of the relation differs".into());
    }
    if a.rendered != b.rendered {
        return Err("the rendered SQL differs".into());
    }
    match (&a.relation, &b.relation) {
        (Some(x), Some(y)) if x != y => Err("the relations are not structurally equal".into()),
        _ => Ok(()),
    }
}

fn corpus(r: &mut Rng, cat: &Catalog) -> Vec<String> {
    let mut q: Vec<String> = (0..8).map(|_| gen_query(r, cat).sql).collect();
    let t = &cat.tables[0].name;
    if r.chance(1, 2) {
        q.push(format!("SELECT RANDOM() AS r, id FROM {}", t));
    }
    q.push(format!("SELECT id, COUNT(*) AS n FROM {} GROUP BY id", t));
    if cat.tables.len() >= 2 {
        // several shared columns: the ON clause of a NATURAL JOIN is a conjunction over all of them
        q.push(format!("SELECT * FROM {} NATURAL JOIN {}", cat.tables[0].name, cat.tables[1].name));
        q.push(format!("SELECT id FROM {} AS l NATURAL JOIN {} AS r", cat.tables[1].name, cat.tables[0].name));
    }
    q.push(format!("SELECT DISTINCT id FROM {} ORDER BY id LIMIT 3", t));
    q
}

fn history_case(i: u64, p: &Params, rep: &mut Report) {
    let mut r = p.rng(i);
    let cat = gen_generic(&mut r, 4);
    let relations = cat.relations();
    let qs = corpus(&mut r, &cat);
    // reference: a fresh naming state (what a fresh process has)
    qrlew::namer::reset();
    let reference: Vec<Compiled1> = qs.iter().map(|q| compile1(q, &relations)).collect();
    // a DP world whose rewritings consume the global counters
    let opts = crate::mon::c03::world_options(&mut r);
    let w = gen_dp_world(&mut r, &opts);
    let wrel = w.cat.relations();
    let mut order: Vec<usize> = (0..qs.len()).chain(0..qs.len()).chain(0..qs.len()).collect();
    r.shuffle(&mut order);
    for k in order {
        // arbitrary other work in between
        match r.below(4) {
            0 => {
                let dq = gen_dp_query(&mut r, &w);
                if let Compiled::Ok(rel) = compile(&dq.sql, &wrel) {
                    let _ = dp_compile(&rel, &wrel, None, w.privacy_unit(), gen_dp_parameters(&mut r));
                }
            }
            1 => {
                let _ = compile(&format!("SELECT RANDOM() AS x FROM {}", cat.tables[0].name), &relations);
            }
            2 => {
                let _ = compile(&gen_query(&mut r, &cat).sql, &relations);
            }
            _ => {}
        }
        let again = compile1(&qs[k], &relations);
        rep.eval();
        rep.count("recompilations_in_a_history");
        if reference[k].relation.is_some() {
            rep.nontrivial(hash64(&(qs[k].clone(), i, k)));
        }
        if let Err(why) = same(&reference[k], &again) {
            let uses_counter = !again.counter_keys.is_empty() || !reference[k].counter_keys.is_empty();
            rep.violation(
                if uses_counter {
                    format!("C16|history|result depends on the global name counter|keys {:?}", {
                        let mut k = again.counter_keys.clone();
                        k.sort();
                        k.dedup();
                        k.iter().map(|s| normalise_message(s)).collect::<Vec<_>>()
                    })
                } else {
                    "C16|history|recompilation differs".to_string()
                },
                format!("{} when the query is compiled again after other compilations", why),
                json!({"catalog": cat.to_json(0), "query": qs[k], "first": reference[k].display, "again": again.display,
                       "first_rendered": reference[k].rendered, "again_rendered": again.rendered, "counter_keys_used": again.counter_keys}),
            );
            return;
        }
    }
    rep.sample(|| json!({"corpus": qs.iter().take(3).collect::<Vec<_>>(), "recompilations": qs.len() * 3}));
}

fn thread_case(i: u64, p: &Params, rep: &mut Report) {
    let mut r = p.rng(i ^ 0x7777_0000);
    let cat = gen_generic(&mut r, 3);
    let relations = cat.relations();
    let qs: Vec<String> = (0..6).map(|_| gen_query(&mut r, &cat).sql).collect();
    qrlew::namer::reset();
    let reference: Vec<Compiled1> = qs.iter().map(|q| compile1(q, &relations)).collect();
    let n_threads = 8;
    let rounds = 6;
    let barrier = Arc::new(Barrier::new(n_threads));
    let seeds: Vec<u64> = (0..n_threads).map(|_| r.next()).collect();
    let results: Vec<Vec<(usize, Result<(), String>, String)>> = std::thread::scope(|s| {
        let handles: Vec<_> = (0..n_threads)
            .map(|t| {
                let barrier = barrier.clone();
                let qs = &qs;
                let relations = &relations;
                let reference = &reference;
                let seed = seeds[t];
                std::thread::Builder::new()
                    .stack_size(64 << 20)
                    .spawn_scoped(s, move || {
                        install_panic_hook();
                        let mut tr = Rng::new(seed);
                        // perturb the schedule around the shared counter
                        verif_hooks::set_yields((t % 4) as u32);
                        let mut out = vec![];
                        barrier.wait();
                        for _ in 0..rounds {
                            let mut order: Vec<usize> = (0..qs.len()).collect();
                            tr.shuffle(&mut order);
                            for k in order {
                                let c = compile1(&qs[k], relations);
                                let detail = format!(
                                    "{}\n--- name-counter keys used: {:?}\n--- rendered in thread:\n{}\n--- rendered by reference:\n{}\n--- schema in thread: {}\n--- schema by reference: {}",
                                    c.display,
                                    c.counter_keys,
                                    c.rendered,
                                    reference[k].rendered,
                                    c.relation.as_ref().map(|r| r.schema().to_string()).unwrap_or_default(),
                                    reference[k].relation.as_ref().map(|r| r.schema().to_string()).unwrap_or_default()
                                );
                                out.push((k, same(&reference[k], &c), detail));
                            }
                        }
                        out
                    })
                    .expect("spawn")
            })
            .collect();
        handles.into_iter().map(|h| h.join().unwrap_or_default()).collect()
    });
    for (t, res) in results.iter().enumerate() {
        for (k, ok, display) in res.iter() {
            rep.eval();
            rep.count("compilations_in_threads");
            if let Err(why) = ok {
                rep.violation(
                    "C16|threads|compilation from a thread differs from the single-threaded reference".to_string(),
                    format!("thread {}: {}", t, why),
                    json!({"catalog": cat.to_json(0), "query": qs[*k], "reference": reference[*k].display, "thread_result": display}),
                );
                return;
            }
        }
    }
    rep.count("thread_rounds");
    rep.nontrivial(hash64(&(qs.clone(), i)));
}

fn fixpoint_case(i: u64, p: &Params, rep: &mut Report) {
    let mut r = p.rng(i ^ 0xF1F1_0000);
    let cat = gen_generic(&mut r, 8);
    let relations = cat.relations();
    for _ in 0..3 {
        let g = gen_query(&mut r, &cat);
        let rel = match compile(&g.sql, &relations) {
            Compiled::Ok(r) => r,
            _ => continue,
        };
        let (r1, r2) = match (render(&rel), render(&rel)) {
            (Ok(a), Ok(b)) => (a, b),
            _ => continue,
        };
        rep.eval();
        rep.count("fixpoint_checks");
        rep.nontrivial(hash64(&g.sql));
        let case = |extra: serde_json::Value| json!({"catalog": cat.to_json(8), "query": g.sql, "rendered": r1, "detail": extra});
        if r1 != r2 {
            rep.violation("C16|fixpoint|rendering the same relation twice gives two texts".to_string(), "render(rel) != render(rel)".to_string(), case(json!({"second": r2})));
            return;
        }
        // re-parse the rendered text
        let rel2 = match compile(&r1, &relations) {
            Compiled::Ok(x) => x,
            Compiled::Err(e) => {
                rep.violation(
                    format!("C16|fixpoint|rendered SQL cannot be parsed back|{}", normalise_message(e.lines().next().unwrap_or("")).split(':').next().unwrap_or("").to_string()),
                    format!("parsing the rendered SQL fails: {}", e.lines().next().unwrap_or("")),
                    case(json!({})),
                );
                return;
            }
            Compiled::Panic(pi) => {
                rep.violation(
                    format!("C16|fixpoint|parsing the rendered SQL panics|{}|{}", pi.file, normalise_message(&pi.message)),
                    format!("{} at {}", pi.message, pi.location),
                    case(json!({})),
                );
                return;
            }
        };
        let sig = |x: &Relation| x.schema().iter().map(|f| (f.name().to_string(), f.data_type().to_string())).collect::<Vec<_>>();
        let (a, b) = (sig(&rel), sig(&rel2));
        if a.iter().map(|x| &x.0).collect::<Vec<_>>() != b.iter().map(|x| &x.0).collect::<Vec<_>>() {
            rep.violation(
                "C16|fixpoint|output names change when the rendered SQL is parsed again".to_string(),
                format!("{:?} vs {:?}", a.iter().map(|x| &x.0).collect::<Vec<_>>(), b.iter().map(|x| &x.0).collect::<Vec<_>>()),
                case(json!({})),
            );
            return;
        }
        if a != b {
            use qrlew::data_type::Variant as _;
            let narrower = rel.schema().iter().zip(rel2.schema().iter()).any(|(x, y)| !x.data_type().is_subset_of(&y.data_type()));
            if narrower {
                let diff = a.iter().zip(b.iter()).find(|(x, y)| x != y).map(|(x, y)| format!("{}: {} -> {}", x.0, x.1, y.1)).unwrap_or_default();
                rep.violation(
                    "C16|fixpoint|output types shrink when the rendered SQL is parsed again".to_string(),
                    diff,
                    case(json!({"schema": a, "schema_after": b})),
                );
                return;
            }
            rep.count("fixpoint_types_wider_after_reparse");
        }
        // same results
        if let Ok(r3) = render(&rel2) {
            let db = Db::new(true, RandomMode::Counter);
            if cat.load(&db).is_ok() {
                if let (Ok(x), Ok(y)) = (db.run_rendered(&r1), db.run_rendered(&r3)) {
                    rep.count("fixpoint_executions");
                    if x.multiset() != y.multiset() {
                        rep.violation(
                            "C16|fixpoint|results change after render -> parse -> render".to_string(),
                            format!("{} rows vs {} rows", x.rows.len(), y.rows.len()),
                            case(json!({"rendered_again": r3})),
                        );
                        return;
                    }
                }
            }
        }
    }
}

pub fn run(p: &Params) -> Report {
    let mut rep = Report::for_params("C16", p);
    let pp = p.clone();
    drive(
        p.cases,
        &mut rep,
        &|i, rep| match i % 4 {
            0 | 1 => history_case(i, &pp, rep),
            2 => fixpoint_case(i, &pp, rep),
            _ => thread_case(i, &pp, rep),
        },
        &|i, pi, rep| {
            rep.count("harness_level_panics");
            if rep.notes.len() < 8 {
                rep.notes.push(format!("panic in case {}: {} at {}", i, pi.message, pi.location));
            }
        },
    );
    rep
}
