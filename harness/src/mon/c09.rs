//! C09 — DP rewriting is exact when noise and clipping are inactive.
use crate::exec::sqlite::{Db, RandomMode, Rows, V};
use crate::gen::catalog::*;
use crate::gen::dpsql::*;
use crate::mon::dpq::*;
use crate::mon::execq::{compile, render, Compiled};
use crate::util::*;
use qrlew::differential_privacy::DpParameters;
use serde_json::json;
use std::collections::{HashMap, HashSet};

fn close(a: f64, b: f64) -> bool {
    (a - b).abs() <= 1e-9 * a.abs().max(b.abs()).max(1.0)
}

fn key_of(row: &[V], idx: &[usize]) -> String {
    idx.iter().map(|i| row[*i].key()).collect::<Vec<_>>().join("|")
}

/// Returns the largest number of rows one privacy unit has in any tracked stage of the execution
pub fn check(q: &DpQuery, w: &DpWorld, params: &DpParameters, rep: &mut Report) -> Option<u64> {
    check_inner(q, w, params, rep)
}

fn check_inner(q: &DpQuery, w: &DpWorld, params: &DpParameters, rep: &mut Report) -> Option<u64> {
    let sql = &q.sql;
    let relations = w.cat.relations();
    let rel = match compile(sql, &relations) {
        Compiled::Ok(r) => r,
        _ => {
            rep.count("parse_error_or_panic");
            return None;
        }
    };
    let c = match dp_compile(&rel, &relations, None, w.privacy_unit(), params.clone()) {
        Outcome::Ok(c) => c,
        Outcome::Err(_) => {
            rep.count("dp_refused");
            return None;
        }
        Outcome::Panic(_) => {
            rep.count("dp_panic");
            return None;
        }
    };
    let (noises, taus) = mechanisms(&c.relation);
    if !taus.is_empty() {
        rep.count("has_threshold_filter(not a C09 case)");
        return None;
    }
    let rendered = match render(&c.relation) {
        Ok(s) => s,
        Err(_) => {
            rep.count("render_panic");
            return None;
        }
    };
    let db = Db::new(true, RandomMode::Counter);
    if w.cat.load(&db).is_err() {
        rep.count("load_error");
        return None;
    }
    let original = match db.query(sql) {
        Ok(r) => r,
        Err(e) => {
            rep.count("original_rejected_by_engine");
            if rep.notes.len() < 3 {
                rep.notes.push(format!("engine rejects {}: {}", sql, e));
            }
            return None;
        }
    };
    // zero noise on the noise nodes, distinct draws elsewhere
    let noise_names: HashSet<String> = noises.iter().map(|n| n.node.clone()).collect();
    let staged = db.staged_with(
        &rendered,
        &mut |db, name| {
            if noise_names.contains(name) {
                db.set_random(RandomMode::Const(1.0));
            } else {
                db.set_random(RandomMode::Counter);
            }
        },
        &mut |_, _, _| Ok(()),
    );
    let (stages, result) = match staged {
        Ok(x) => x,
        Err(e) => {
            rep.count("execution_error");
            if rep.notes.len() < 6 {
                rep.notes.push(format!("execution error: {} on {}", e.chars().take(300).collect::<String>(), sql));
            }
            return None;
        }
    };
    rep.eval();
    rep.count("dp_queries_executed_with_zero_noise");
    // premises, observed: every scale factor is 1 (clipping inactive)
    let mut clipping_active = false;
    let mut scale_values = 0u64;
    for (_, rows) in stages.iter() {
        for (ci, cname) in rows.columns.iter().enumerate() {
            if cname.starts_with("_SCALE_FACTOR_") && !cname.ends_with("_PRIVACY_UNIT_") {
                for r in rows.rows.iter() {
                    if let Some(f) = r[ci].as_f64() {
                        scale_values += 1;
                        if (f - 1.0).abs() > 1e-12 {
                            clipping_active = true;
                        }
                    }
                }
            }
        }
    }
    rep.add("scale_factors_observed", scale_values);
    // rows per privacy unit in the tracked stages, and the multiplicity the clipping bounds were built with
    // (the bound of a count column is 1 x multiplicity)
    let mut max_rows_per_unit = 0u64;
    for (_, rows) in stages.iter() {
        if let Some(pi) = rows.col(qrlew::privacy_unit_tracking::PrivacyUnit::privacy_unit()) {
            let mut per: HashMap<String, u64> = HashMap::new();
            for r in rows.rows.iter() {
                if !matches!(r[pi], V::Null) {
                    *per.entry(r[pi].key()).or_insert(0) += 1;
                }
            }
            max_rows_per_unit = max_rows_per_unit.max(per.values().cloned().max().unwrap_or(0));
        }
    }
    let multiplicity_used: Option<f64> = c
        .events
        .iter()
        .filter(|e| e.kind == "gaussian_mechanism" && e.str("column").map_or(false, |c| c.starts_with("_COUNT_")))
        .filter_map(|e| e.f64("bound"))
        .fold(None, |m: Option<f64>, b| Some(m.map_or(b, |x| x.min(b))));
    if clipping_active {
        match multiplicity_used {
            Some(m) if (max_rows_per_unit as f64) <= m && max_rows_per_unit > 0 => {
                rep.count("judged");
                rep.violation(
                    format!("C09|clipping-active-although-no-unit-exceeds-the-multiplicity|{}", q.aggs.iter().map(|a| a.1).min().unwrap_or("none")),
                    format!(
                        "some scale factor is below 1 although every value is in its declared range and no privacy unit has more than {} rows (multiplicity used by the bounds: {})",
                        max_rows_per_unit, m
                    ),
                    json!({"catalog": w.cat.to_json(40), "query": sql, "rendered": rendered, "dp_parameters": format!("{:?}", params),
                           "max_rows_per_unit": max_rows_per_unit, "multiplicity": m}),
                );
            }
            _ => rep.count("premise_failed:clipping_active(not judged)"),
        }
        return Some(max_rows_per_unit);
    }
    // referential integrity along the privacy-unit path (dangling rows are dropped by tracking)
    for t in ["orders", "items"] {
        let tab = w.cat.table(t).unwrap();
        if tab.rows.iter().any(|row| w.owner(t, row).is_none()) {
            rep.count("premise_failed:dangling_reference(not judged)");
            return None;
        }
    }
    rep.count("judged");
    rep.nontrivial(hash64(&(sql.clone(), format!("{:?}", w.cat.tables.iter().map(|t| t.rows.len()).collect::<Vec<_>>()))));
    let case = || {
        json!({"catalog": w.cat.to_json(40), "query": sql, "rendered": rendered, "original_result": original.to_json(20), "dp_result_zero_noise": result.to_json(20),
               "dp_parameters": format!("{:?}", params)})
    };
    // columns by alias
    let kidx_o: Option<Vec<usize>> = q.keys.iter().map(|k| original.col(k)).collect();
    let kidx_d: Option<Vec<usize>> = q.keys.iter().map(|k| result.col(k)).collect();
    let (kidx_o, kidx_d) = match (kidx_o, kidx_d) {
        (Some(a), Some(b)) => (a, b),
        _ => {
            rep.violation("C09|output-columns-differ".to_string(), format!("original columns {:?}, DP columns {:?}", original.columns, result.columns), case());
            return None;
        }
    };
    let dp_by_key: HashMap<String, &Vec<V>> = result.rows.iter().map(|r| (key_of(r, &kidx_d), r)).collect();
    let orig_keys: HashSet<String> = original.rows.iter().map(|r| key_of(r, &kidx_o)).collect();
    // reference statistics of the data for var / std (population and sample)
    let mut stats: HashMap<(String, String), (Option<f64>, Option<f64>)> = HashMap::new();
    for (alias, kind, arg) in q.aggs.iter() {
        if *kind == "variance" || *kind == "stddev" {
            let keys = if q.group_exprs.is_empty() { String::new() } else { format!("{}, ", q.group_exprs.join(", ")) };
            let group = if q.group_exprs.is_empty() { String::new() } else { format!(" GROUP BY {}", q.group_exprs.join(", ")) };
            let sqlr = format!(
                "SELECT {}AVG(1.0 * {a} * {a}) - AVG(1.0 * {a}) * AVG(1.0 * {a}) AS pop, VARIANCE({a}) AS smp FROM {}{}",
                keys, q.from_where, group, a = arg
            );
            if let Ok(rows) = db.query(&sqlr) {
                let nk = q.group_exprs.len();
                for r in rows.rows.iter() {
                    let key = (0..nk).map(|i| r[i].key()).collect::<Vec<_>>().join("|");
                    stats.insert((alias.clone(), key), (r[nk].as_f64(), r[nk + 1].as_f64()));
                }
            }
        }
    }
    for orow in original.rows.iter() {
        let key = key_of(orow, &kidx_o);
        let drow = match dp_by_key.get(&key) {
            Some(d) => *d,
            None => {
                rep.violation(
                    "C09|group-missing".to_string(),
                    format!("group {} of the original result is absent from the DP result although noise and clipping are inactive", key),
                    case(),
                );
                return None;
            }
        };
        for (alias, kind, _) in q.aggs.iter() {
            let (oi, di) = match (original.col(alias), result.col(alias)) {
                (Some(a), Some(b)) => (a, b),
                _ => continue,
            };
            let ov = orow[oi].as_f64();
            let dv = drow[di].as_f64();
            rep.count(&format!("compared:{}", kind));
            match *kind {
                "variance" | "stddev" => {
                    let (pop, smp) = stats.get(&(alias.clone(), key.clone())).cloned().unwrap_or((None, None));
                    let (pop, smp) = if *kind == "stddev" { (pop.map(|v| v.max(0.0).sqrt()), smp.map(|v| v.max(0.0).sqrt())) } else { (pop, smp) };
                    let dvv = match dv {
                        Some(v) => v,
                        None => continue,
                    };
                    let ok = pop.map_or(false, |p| (dvv - p).abs() <= 1e-6 * p.abs().max(1.0)) || smp.map_or(false, |s| (dvv - s).abs() <= 1e-6 * s.abs().max(1.0));
                    if pop.is_some() && !ok {
                        rep.violation(
                            format!("C09|value-differs|{}", kind),
                            format!("group {}: DP {} = {} but the data have population value {:?} and sample value {:?}", key, kind, dvv, pop, smp),
                            case(),
                        );
                        return None;
                    }
                }
                _ => match (ov, dv) {
                    (Some(o), Some(d)) => {
                        if !close(o, d) {
                            rep.violation(
                                format!("C09|value-differs|{}", kind),
                                format!("group {}: original {} = {}, DP rewriting with zero noise and inactive clipping = {}", key, kind, o, d),
                                case(),
                            );
                            return None;
                        }
                    }
                    (Some(o), None) => {
                        rep.violation(
                            format!("C09|value-differs|{}|NULL", kind),
                            format!("group {}: original {} = {}, DP result is NULL", key, kind, o),
                            case(),
                        );
                        return None;
                    }
                    (None, _) => rep.count("original_aggregate_is_null(not compared)"),
                },
            }
        }
    }
    // extra DP groups: only public key values absent from the data, with zero counts / sums
    for drow in result.rows.iter() {
        let key = key_of(drow, &kidx_d);
        if orig_keys.contains(&key) {
            continue;
        }
        rep.count("extra_groups(public values absent from the data)");
        for (alias, kind, _) in q.aggs.iter() {
            if let Some(di) = result.col(alias) {
                if matches!(*kind, "count" | "count_star" | "sum" | "count_distinct" | "sum_distinct") {
                    if let Some(v) = drow[di].as_f64() {
                        if v.abs() > 1e-9 {
                            rep.violation(
                                format!("C09|extra-group-with-nonzero-{}", kind),
                                format!("group {} is not in the original result but has {} = {}", key, kind, v),
                                case(),
                            );
                            return None;
                        }
                    }
                }
            }
        }
    }
    rep.sample(|| json!({"query": sql, "original_rows": original.rows.len(), "dp_rows": result.rows.len(), "scale_factors_observed": scale_values,
        "first_original_row": original.rows.first().map(|r| r.iter().map(|v| v.render()).collect::<Vec<_>>())}));
    let _: Option<&Rows> = None;
    Some(max_rows_per_unit)
}

pub fn run(p: &Params) -> Report {
    let mut rep = Report::for_params("C09", p);
    let pp = p.clone();
    drive(
        p.cases,
        &mut rep,
        &|i, rep| {
            let mut r = pp.rng(i);
            let opts = DpWorldOptions {
                n_users: 3 + r.usize(8),
                max_orders_per_user: 3,
                max_items_per_order: 2,
                n_events: 2 + r.usize(10),
                dangling: false,
                nullable: true,
            };
            let w = gen_dp_world(&mut r, &opts);
            for _ in 0..4 {
                let q = gen_dp_query(&mut r, &w);
                if !q.public_keys_only {
                    rep.count("skipped:private_keys_or_having");
                    continue;
                }
                if q.features.contains(&"outer_join_protected") {
                    // rows preserved by the outer join without a privacy unit are dropped by the tracking (C05 finding)
                    rep.count("skipped:outer_join_of_protected_tables");
                    continue;
                }
                if q.features.contains(&"dp_over_dp") || q.features.contains(&"nested_aggregation") || q.features.contains(&"join_of_dp_subqueries") {
                    // the inner aggregation is itself noised and thresholded: exactness is about one level
                    rep.count("skipped:dp_over_dp");
                    continue;
                }
                if q.features.contains(&"join_nonkey") || q.features.contains(&"cross_join_protected") {
                    // the tracking restricts such a join to pairs of rows of the same unit: the rewritten
                    // query deliberately computes something else than the original
                    rep.count("skipped:join_of_protected_tables_not_on_the_unit");
                    continue;
                }
                // generous multiplicity so that clipping stays inactive (checked, not assumed)
                let params = DpParameters::new(*r.pick(&[0.5, 1.0, 10.0]), *r.pick(&[1e-5, 1e-3]), 0.5, 100.0, 1.0, *r.pick(&[2u64, 5, 10]));
                let m = check(&q, &w, &params, rep);
                // again with the tightest multiplicity the data allows: no unit exceeds it, so clipping must
                // stay inactive and the result exact; a bound that is too small for the declared range shows here
                if let Some(m) = m {
                    if m >= 1 && r.bool() {
                        let tight = DpParameters::new(params.epsilon, params.delta, 0.5, m as f64, 1.0, params.max_privacy_unit_groups);
                        rep.count("reruns_with_tight_multiplicity");
                        check(&q, &w, &tight, rep);
                    }
                }
            }
        },
        &|i, pi, rep| {
            rep.count("harness_level_panics");
            if rep.notes.len() < 8 {
                rep.notes.push(format!("panic in case {}: {} at {}", i, pi.message, pi.location));
            }
        },
    );
    rep
}
