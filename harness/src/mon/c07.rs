//! C07 — relation schemas and size bounds contain what real execution produces.
//! C14 — columns declared unique really are unique (same executions, own verdict).
use crate::exec::sqlite::{Db, RandomMode};
use crate::gen::catalog::*;
use crate::gen::sql::gen_query;
use crate::mon::execq::*;
use crate::oracle::member::member_tol;
use crate::util::*;
use qrlew::data_type::{DataType, DataTyped};
use qrlew::relation::{Relation, Variant as _};
use serde_json::json;
use std::collections::HashMap;

#[derive(Clone, Copy, PartialEq)]
pub enum Which {
    C07,
    C14,
}

fn case_json(cat: &Catalog, sql: &str, rendered: &str) -> serde_json::Value {
    json!({"catalog": cat.to_json(12), "query": sql, "rendered": rendered})
}

pub fn check_case(which: Which, cat: &Catalog, sql: &str, feats: &[&'static str], rep: &mut Report) {
    let relations = cat.relations();
    let rel = match compile(sql, &relations) {
        Compiled::Ok(r) => r,
        Compiled::Err(_) => {
            rep.count("compile_error");
            return;
        }
        Compiled::Panic(_) => {
            rep.count("compile_panic");
            return;
        }
    };
    check_relation(which, cat, &rel, sql, feats, rep)
}

/// Relations made with the public builders rather than read from SQL: literal lists (Values) with
/// repeated elements, on their own and joined with a table
fn built_relation(r: &mut Rng, cat: &Catalog) -> Option<(Relation, String)> {
    use qrlew::builder::{Ready, With, WithIterator};
    use qrlew::expr::Expr;
    let n = 2 + r.usize(5);
    let pool = [1i64, 2, 3, 5, 8];
    let vals: Vec<i64> = (0..n).map(|_| *r.pick(&pool)).collect();
    let values: Relation = Relation::values().name("vals").values(vals.iter().map(|v| qrlew::data_type::value::Value::integer(*v)).collect::<Vec<_>>()).build();
    let describe = format!("Values{:?}", vals);
    if r.chance(1, 3) {
        return Some((values, describe));
    }
    // t JOIN vals ON t.<int column> = vals.vals, projected on the columns of t
    let t = r.pick(&cat.tables);
    let col = t.cols.iter().find(|c| c.is_numeric() && !c.optional())?;
    let table = t.relation();
    let join: Relation = Relation::join()
        .inner(Expr::eq(Expr::qcol(qrlew::relation::Join::left_name(), col.name.as_str()), Expr::qcol(qrlew::relation::Join::right_name(), "vals")))
        .left(table)
        .right(values)
        .build();
    let nleft = t.cols.len();
    let proj: Relation = Relation::map()
        .with_iter(join.schema().iter().take(nleft).zip(t.cols.iter()).map(|(f, c)| (c.name.clone(), Expr::col(f.name()))).collect::<Vec<_>>())
        .input(join)
        .build();
    Some((proj, format!("{} JOIN {} ON {}.{} = vals", t.name, describe, t.name, col.name)))
}

pub fn check_relation(which: Which, cat: &Catalog, rel: &Relation, sql: &str, feats: &[&'static str], rep: &mut Report) {
    let pid = if which == Which::C07 { "C07" } else { "C14" };
    let rel = rel.clone();
    let rendered = match render(&rel) {
        Ok(s) => s,
        Err(_) => {
            rep.count("render_panic");
            return;
        }
    };
    let db = Db::new(true, RandomMode::Counter);
    if let Err(e) = cat.load(&db) {
        rep.count("load_error");
        if rep.notes.len() < 3 {
            rep.notes.push(format!("load: {}", e));
        }
        return;
    }
    let staged = match run_staged(&db, &rendered) {
        Ok(s) => s,
        Err(e) => {
            rep.count("execution_error");
            if rep.notes.len() < 6 {
                rep.notes.push(format!("execution error: {} on {}", e.chars().take(300).collect::<String>(), sql));
            }
            return;
        }
    };
    rep.count("executed_queries");
    for f in feats {
        rep.count(&format!("feature:{}", f));
    }
    let mut by_name: HashMap<String, &Relation> = HashMap::new();
    nodes(&rel, &mut by_name);
    let mut judged_any = false;
    // nodes at or below which a violation was already observed: their consumers inherit wrong
    // sizes / types and are not judged again (one defect, one report)
    let mut tainted: std::collections::HashSet<String> = std::collections::HashSet::new();
    for (name, rows) in staged.stages.iter() {
        let node = match by_name.get(name) {
            Some(n) => *n,
            None => continue,
        };
        if node.inputs().iter().any(|i| tainted.contains(i.name())) {
            tainted.insert(name.clone());
            rep.count("nodes_downstream_of_a_violation(not judged)");
            continue;
        }
        rep.eval();
        rep.count(&format!("node:{}", kind(node)));
        judged_any = true;
        let fields: Vec<_> = node.schema().iter().collect();
        if fields.len() != rows.columns.len() {
            rep.count("arity_mismatch(not judged)");
            continue;
        }
        if which == Which::C07 {
            // size
            let n = rows.rows.len() as i64;
            let size = node.size();
            if !size.iter().any(|[a, b]| *a <= n && n <= *b) {
                let side = if size.max().map_or(false, |m| n > *m) { "above-max" } else { "below-min-or-gap" };
                tainted.insert(name.clone());
                // outer joins: the bound differs according to whether the ON clause equates a UNIQUE column
                let join_class = match node {
                    Relation::Join(j) if !matches!(j.operator(), qrlew::relation::JoinOperator::Inner(_) | qrlew::relation::JoinOperator::Cross) => {
                        fn eq_on_unique(e: &qrlew::expr::Expr, j: &qrlew::relation::Join) -> bool {
                            use qrlew::expr::{function::Function as F, Expr};
                            match e {
                                Expr::Function(f) => {
                                    let a = f.arguments();
                                    if f.function() == F::Eq && a.len() == 2 {
                                        let unique = |x: &Expr| match x {
                                            Expr::Column(c) if c.len() == 2 => {
                                                let side = if c[0] == qrlew::relation::Join::left_name() { j.left() } else { j.right() };
                                                side.schema().field(&c[1]).map_or(false, |fd| fd.constraint().is_some() && fd.constraint() != Some(qrlew::relation::Constraint::ForeignKey))
                                            }
                                            _ => false,
                                        };
                                        unique(&a[0]) || unique(&a[1])
                                    } else {
                                        a.iter().any(|x| eq_on_unique(x, j))
                                    }
                                }
                                _ => false,
                            }
                        }
                        let on = match j.operator() {
                            qrlew::relation::JoinOperator::LeftOuter(e) | qrlew::relation::JoinOperator::RightOuter(e) | qrlew::relation::JoinOperator::FullOuter(e) => Some(e),
                            _ => None,
                        };
                        if on.map_or(false, |e| eq_on_unique(e, j)) { "|ON equates a unique column" } else { "|no unique column in ON" }
                    }
                    _ => "",
                };
                rep.violation(
                    format!("C07|size|{}|{}{}", kind(node), side, join_class),
                    format!("node {} ({}) produced {} rows, declared size {}", name, kind(node), n, size),
                    {
                        let mut c = case_json(cat, sql, &rendered);
                        c["node"] = json!(node.to_string());
                        c["rows"] = json!(n);
                        c["declared_size"] = json!(size.to_string());
                        c
                    },
                );
            }
            // types
            'outer: for row in rows.rows.iter() {
                for (ci, f) in fields.iter().enumerate() {
                    let ty = f.data_type();
                    let v = match decode(&row[ci], &ty) {
                        Some(v) => v,
                        None => continue,
                    };
                    rep.add("values_checked", 1);
                    if member_tol(&v, &ty, 1e-9) == Some(false) {
                        let cls = if row[ci].is_null() { "NULL in a non-optional column" } else { "value outside the declared type" };
                        tainted.insert(name.clone());
                        let origin = match node {
                            Relation::Map(m) => {
                                let c = m.projection().get(ci).map(|e| {
                                    let c = culprits_for(e, &m.input().data_type(), row[ci].is_null());
                                    // the engine types the projection against the input narrowed by the
                                    // Map's own filter (`a IN (2, 3)` makes an integer column float{2, 3})
                                    match (c.is_empty(), m.filter().as_ref()) {
                                        (true, Some(f)) => match guarded(|| m.input().data_type().filter(f)) {
                                            Ok(narrowed) => culprits_for(e, &narrowed, row[ci].is_null()),
                                            Err(_) => c,
                                        },
                                        _ => c,
                                    }
                                }).unwrap_or_default();
                                if c.is_empty() { column_origin(node, ci) } else { c.join(" + ") }
                            }
                            Relation::Reduce(_) if row[ci].is_null() => "aggregate (empty or all-NULL input)".to_string(),
                            _ => column_origin(node, ci),
                        };
                        rep.violation(
                            format!("C07|type|{}|{}|{}", kind(node), origin, cls),
                            format!("node {} column {}: engine value {} not in declared type {}", name, f.name(), row[ci].render(), ty),
                            {
                                let mut c = case_json(cat, sql, &rendered);
                                c["node"] = json!(node.to_string());
                                c["column"] = json!(f.name());
                                c["value"] = json!(row[ci].render());
                                c["declared_type"] = json!(ty.to_string());
                                c
                            },
                        );
                        break 'outer;
                    }
                }
            }
        } else {
            for (ci, f) in fields.iter().enumerate() {
                if !f.has_unique_or_primary_key_constraint() {
                    continue;
                }
                rep.count("unique_columns_checked");
                rep.count(&format!("unique_in:{}", kind(node)));
                let mut seen: HashMap<String, usize> = HashMap::new();
                for row in rows.rows.iter() {
                    if row[ci].is_null() {
                        continue;
                    }
                    *seen.entry(row[ci].exact_key()).or_insert(0) += 1;
                }
                if let Some((k, n)) = seen.iter().find(|(_, n)| **n > 1) {
                    tainted.insert(name.clone());
                    rep.violation(
                        format!("C14|duplicate|{}|{}", kind(node), column_origin(node, ci)),
                        format!("node {} column {} is declared {:?} but value {} occurs {} times", name, f.name(), f.constraint(), k, n),
                        {
                            let mut c = case_json(cat, sql, &rendered);
                            c["node"] = json!(node.to_string());
                            c["column"] = json!(f.name());
                            c
                        },
                    );
                }
            }
        }
    }
    if judged_any {
        rep.nontrivial(hash64(&(sql.to_string(), format!("{:?}", cat.tables.iter().map(|t| t.rows.len()).collect::<Vec<_>>()))));
        rep.sample(|| json!({"query": sql, "nodes": staged.stages.iter().map(|(n, r)| json!([n, r.rows.len()])).collect::<Vec<_>>(), "result_rows": staged.result.rows.len()}));
    }
    let _ = (pid, DataType::Any);
}

/// Queries aimed at what uniqueness depends on
fn unique_query(r: &mut Rng, cat: &Catalog) -> String {
    let t = r.pick(&cat.tables);
    let t2 = r.pick(&cat.tables);
    let num: Vec<&ColDef> = t.cols.iter().filter(|c| c.is_numeric()).collect();
    let anyc = r.pick(&t.cols);
    let c2 = r.pick(&t.cols);
    match r.below(14) {
        // UNION removes duplicate rows, not duplicate values of one column
        12 => format!("SELECT id, 1 AS k FROM {} UNION SELECT id, 2 AS k FROM {}", t.name, t2.name),
        13 => format!("SELECT id, {c} FROM {t} UNION SELECT id, {c} FROM {t} WHERE id > 0", c = anyc.name, t = t.name),
        // functions of random(): a draw is unique, a function of it need not be
        10 => format!("SELECT (RANDOM() > 0.5) AS coin, (- RANDOM()) AS neg, id FROM {}", t.name),
        11 => format!("SELECT CASE WHEN RANDOM() > 0.5 THEN 1 ELSE 0 END AS coin, id FROM {}", t.name),
        0 => format!("SELECT id, CAST(id AS FLOAT) AS f, (id + 1) AS g, (- id) AS h FROM {}", t.name),
        1 if !num.is_empty() => format!("SELECT CAST(id AS TEXT) AS s, ABS({}) AS a, id * 0 AS z FROM {}", r.pick(&num).name, t.name),
        2 => format!("SELECT {} AS k, COUNT(*) AS n FROM {} GROUP BY {}", anyc.name, t.name, anyc.name),
        3 => format!("SELECT {} AS k, COUNT(*) AS n FROM {} GROUP BY {}, {}", anyc.name, t.name, anyc.name, c2.name),
        4 => format!("SELECT l.id AS lid, r.id AS rid FROM {} AS l JOIN {} AS r ON l.id = r.id", t.name, t2.name),
        5 if t2.col("ref").is_some() => format!("SELECT l.id AS lid, r.id AS rid FROM {} AS l JOIN {} AS r ON l.id = r.ref", t.name, t2.name),
        6 => format!("SELECT l.id AS lid, r.id AS rid FROM {} AS l LEFT JOIN {} AS r ON l.id = r.id", t.name, t2.name),
        7 => format!("SELECT id FROM {} UNION ALL SELECT id FROM {}", t.name, t2.name),
        8 => format!("SELECT DISTINCT {} FROM {}", anyc.name, t.name),
        _ => format!("SELECT id, {} FROM {} WHERE id > 3 ORDER BY id LIMIT 5", anyc.name, t.name),
    }
}

/// Queries aimed at size bounds
fn size_query(r: &mut Rng, cat: &Catalog) -> String {
    let t = r.pick(&cat.tables);
    let t2 = r.pick(&cat.tables);
    let c = r.pick(&t.cols);
    match r.below(14) {
        // outer joins that match nothing, against a side of at most 0 / 1 / 2 rows: every row of a preserved side comes out
        10 | 11 | 12 => {
            let kind = *r.pick(&["FULL JOIN", "LEFT JOIN", "RIGHT JOIN"]);
            let lim = r.below(3);
            if r.bool() {
                format!("SELECT l.id AS a, v.rid AS b FROM {} AS l {} (SELECT id AS rid FROM {} LIMIT {}) AS v ON l.id = v.rid + 1000", t.name, kind, t2.name, lim)
            } else {
                format!("SELECT v.rid AS a, r.id AS b FROM (SELECT id AS rid FROM {} LIMIT {}) AS v {} {} AS r ON r.id = v.rid + 1000", t2.name, lim, kind, t.name)
            }
        }
        13 => format!("SELECT l.id AS a, r.id AS b FROM {} AS l FULL JOIN {} AS r ON l.id = r.id + 1000", t.name, t2.name),
        0 => format!("SELECT COUNT(*) AS n FROM {}", t.name),
        1 => format!("SELECT COUNT(*) AS n, MAX(id) AS m FROM {} WHERE id < 0", t.name),
        2 => format!("SELECT l.id AS a, r.id AS b FROM {} AS l LEFT JOIN {} AS r ON l.id = r.id", t.name, t2.name),
        3 => format!("SELECT l.id AS a, r.id AS b FROM {} AS l RIGHT JOIN {} AS r ON l.id = r.id", t.name, t2.name),
        4 => format!("SELECT l.id AS a, r.id AS b FROM {} AS l FULL JOIN {} AS r ON l.id = r.id", t.name, t2.name),
        5 => format!("SELECT id FROM {} UNION SELECT id FROM {}", t.name, t2.name),
        6 => format!("SELECT id FROM {} UNION ALL SELECT id FROM {}", t.name, t2.name),
        7 => format!("SELECT id FROM {} EXCEPT SELECT id FROM {}", t.name, t2.name),
        8 => format!("SELECT {} FROM {} LIMIT 3 OFFSET 100", c.name, t.name),
        _ => format!("SELECT l.id AS a FROM {} AS l CROSS JOIN {} AS r", t.name, t2.name),
    }
}

pub fn run(p: &Params, which: Which) -> Report {
    let pid = if which == Which::C07 { "C07" } else { "C14" };
    let mut rep = Report::for_params(pid, p);
    let pp = p.clone();
    drive(
        p.cases,
        &mut rep,
        &|i, rep| {
            let mut r = pp.rng(i);
            let cat = gen_generic(&mut r, 12);
            if let Err(e) = conforming(&cat) {
                rep.count("non_conforming_instance(harness)");
                if rep.notes.len() < 3 {
                    rep.notes.push(e);
                }
                return;
            }
            if r.chance(1, 8) {
                if let Ok(Some((rel, describe))) = guarded(|| built_relation(&mut r, &cat)) {
                    check_relation(which, &cat, &rel, &describe, &["built_with_values"], rep);
                }
            }
            for k in 0..4 {
                let (sql, feats) = match (k, which) {
                    (3, Which::C14) | (2, Which::C14) => (unique_query(&mut r, &cat), vec!["targeted_unique"]),
                    (3, Which::C07) => (size_query(&mut r, &cat), vec!["targeted_size"]),
                    _ => {
                        let g = gen_query(&mut r, &cat);
                        (g.sql, g.features)
                    }
                };
                check_case(which, &cat, &sql, &feats, rep);
            }
        },
        &|i, pi, rep| {
            rep.count("harness_level_panics");
            if rep.notes.len() < 8 {
                rep.notes.push(format!("panic in case {}: {} at {}", i, pi.message, pi.location));
            }
        },
    );
    rep
}
