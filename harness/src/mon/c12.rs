//! C12 — type conversions are value-preserving injections within the converted type.
use crate::gen::types::*;
use crate::mon::c11::vname;
use crate::oracle::member::{canon_eq, member, member_premise, num_of, Num};
use crate::util::*;
use qrlew::data_type::injection::{InjectInto, Injection};
use qrlew::data_type::value::{Value, Variant as _};
use qrlew::data_type::{DataType, Variant as _};
use serde_json::json;

fn target(r: &mut Rng, a: &DataType) -> DataType {
    if matches!(a, DataType::Struct(_)) && r.chance(1, 2) {
        // liftings are the only conversions a struct has
        if let DataType::Struct(s) = a {
            let drop = r.chance(1, 2);
            return DataType::structured(
                s.fields()
                    .iter()
                    .enumerate()
                    .filter(|(i, _)| !(drop && *i > 0))
                    .map(|(_, (n, t))| (n.clone(), if r.bool() { (**t).clone() } else { target(r, t) }))
                    .collect::<Vec<_>>(),
            );
        }
    }
    match r.below(16) {
        0 | 1 => DataType::float(),
        2 | 3 => DataType::integer(),
        4 | 5 => DataType::text(),
        6 => DataType::boolean(),
        7 => DataType::date_time(),
        8 => DataType::date(),
        9 => DataType::bytes(),
        10 => DataType::optional(target(r, a)),
        11 => match a {
            // liftings: same shape, converted inside
            DataType::List(l) => DataType::list(target(r, l.data_type()), 0, 10),
            DataType::Optional(o) => DataType::optional(target(r, o.data_type())),
            DataType::Struct(s) => {
                // same fields, or only some of them (the others are carried over unchanged)
                let drop = r.chance(1, 3);
                DataType::structured(
                    s.fields()
                        .iter()
                        .enumerate()
                        .filter(|(i, _)| !(drop && *i > 0))
                        .map(|(_, (n, t))| (n.clone(), if r.bool() { (**t).clone() } else { target(r, t) }))
                        .collect::<Vec<_>>(),
                )
            }
            DataType::Set(l) => DataType::set(target(r, l.data_type()), 0, 10),
            DataType::Array(l) => DataType::array(target(r, l.data_type()), l.shape()),
            _ => DataType::Any,
        },
        12 => DataType::Integer(gen_integer(r)),
        13 => DataType::Float(gen_float(r)),
        14 => DataType::duration(),
        _ => DataType::time(),
    }
}

fn source(r: &mut Rng) -> DataType {
    match r.below(12) {
        0 | 1 => DataType::Integer(gen_integer(r)),
        2 | 3 => DataType::Float(gen_float(r)),
        4 => DataType::Boolean(gen_boolean(r)),
        5 => DataType::Text(gen_text(r)),
        6 => DataType::Date(gen_date(r)),
        7 => DataType::DateTime(gen_datetime(r)),
        8 => {
            // float types made of integral values (convertible to integer)
            let vs: Vec<f64> = (0..1 + r.usize(4))
                .map(|_| if r.chance(1, 6) { *r.pick(&[1e19, -1e19, 1e30, 2e30, -3e25, 9.3e18, -9.3e18, 1.8e19]) } else { int_any(r) as f64 })
                .collect();
            DataType::float_values(vs)
        }
        9 => DataType::integer_values([0, 1]),
        10 => {
            let inner = source(r);
            match r.below(3) {
                0 => DataType::optional(inner),
                1 => DataType::list(inner, 0, 3),
                _ => DataType::structured([("a", inner), ("b", DataType::Integer(gen_integer(r)))]),
            }
        }
        _ => gen_primitive(r),
    }
}

/// a value adjacent to `v` inside `a` (neighbouring integer, adjacent float, one-byte-different text)
fn neighbour(r: &mut Rng, v: &Value, a: &DataType) -> Option<Value> {
    let cand = match v {
        Value::Integer(i) => Value::integer(if r.bool() { i.checked_add(1)? } else { i.checked_sub(1)? }),
        Value::Float(f) => {
            let b = f.to_bits();
            let n = f64::from_bits(if r.bool() { b.wrapping_add(1) } else { b.wrapping_sub(1) });
            if !n.is_finite() {
                return None;
            }
            Value::float(n)
        }
        Value::Text(s) => {
            let mut t = s.to_string();
            if r.bool() || t.is_empty() {
                t.push('a');
            } else {
                t.pop();
            }
            Value::text(t)
        }
        Value::Date(d) => Value::date(d.succ_opt()?),
        Value::DateTime(d) => Value::date_time(d.checked_add_signed(if r.bool() { chrono::Duration::seconds(1) } else { chrono::Duration::milliseconds(500) })?),
        Value::Boolean(b) => Value::boolean(!**b),
        Value::Struct(st) => {
            // change exactly one field
            let fields: Vec<(String, Value)> = st.fields().iter().map(|(n, x)| (n.clone(), (**x).clone())).collect();
            if fields.is_empty() {
                return None;
            }
            let k = r.usize(fields.len());
            let ft = match a {
                DataType::Struct(s) => s.fields().iter().find(|(n, _)| *n == fields[k].0).map(|(_, t)| (**t).clone())?,
                _ => return None,
            };
            let nv = neighbour(r, &fields[k].1, &ft)?;
            Value::structured(fields.iter().enumerate().map(|(i, (n, x))| (n.clone(), if i == k { nv.clone() } else { x.clone() })).collect::<Vec<_>>())
        }
        _ => return gen_value_in(r, a),
    };
    if member_premise(&cand, a) == Some(true) {
        Some(cand)
    } else {
        gen_value_in(r, a)
    }
}

fn beyond(v: &Value) -> bool {
    fn walk(v: &Value) -> bool {
        match v {
            Value::Optional(o) => o.as_deref().map_or(false, walk),
            Value::Struct(s) => s.fields().iter().any(|(_, x)| walk(x)),
            Value::List(l) => l.iter().any(walk),
            v => match num_of(v) {
                Some(Num::I(i)) => i.unsigned_abs() > (1u64 << 53),
                Some(Num::F(f)) => f.abs() > 9.0e15,
                None => false,
            },
        }
    }
    walk(v)
}

/// an integer beyond 2^53 somewhere in the value (the known inexact direction is integer -> float)
fn beyond_int(v: &Value) -> bool {
    match v {
        Value::Optional(o) => o.as_deref().map_or(false, beyond_int),
        Value::Struct(s) => s.fields().iter().any(|(_, x)| beyond_int(x)),
        Value::List(l) => l.iter().any(beyond_int),
        Value::Integer(i) => i.unsigned_abs() > (1u64 << 53),
        _ => false,
    }
}

fn case(i: u64, p: &Params, rep: &mut Report) {
    let mut r = p.rng(i);
    let a = source(&mut r);
    let b = target(&mut r, &a);
    let pair = format!("{}->{}", vname(&a), vname(&b));
    let inj = match guarded(|| a.inject_into(&b)) {
        Ok(Ok(inj)) => inj,
        Ok(Err(_)) => {
            rep.count(&format!("refused:{}", pair));
            return;
        }
        Err(pi) => {
            rep.count("inject_into_panics");
            if rep.notes.len() < 5 {
                rep.notes.push(format!("inject_into({}, {}) panics: {} at {}", a, b, pi.message, pi.location));
            }
            return;
        }
    };
    let img = guarded(|| inj.super_image(&a));
    let t = match img {
        Ok(Ok(t)) => t,
        Ok(Err(_)) => {
            rep.count(&format!("image_refused:{}", pair));
            return;
        }
        Err(pi) => {
            rep.count("super_image_panics");
            if rep.notes.len() < 8 {
                rep.notes.push(format!("super_image of {} into {} panics: {} at {}", a, b, pi.message, pi.location));
            }
            return;
        }
    };
    rep.count(&format!("converted:{}", pair));
    // a finite set of n values cannot convert to a finite set of fewer values
    // (scalars only: a struct conversion carries the fields absent from the target over in the values, not in the type)
    let scalar_source = !matches!(a, DataType::Struct(_) | DataType::Union(_) | DataType::List(_) | DataType::Set(_) | DataType::Array(_) | DataType::Optional(_));
    if !scalar_source {
    } else if let (Ok(src), Ok(dst)) = (TryInto::<Vec<Value>>::try_into(a.clone()), TryInto::<Vec<Value>>::try_into(t.clone())) {
        rep.count("finite_sets_compared");
        let zero = src.iter().any(|v| matches!(v, Value::Float(f) if **f == 0.0));
        if dst.len() < src.len() && !zero {
            rep.eval();
            rep.violation(
                if src.iter().any(beyond_int) {
                    "C12|type-level-collapse|some number beyond 2^53 (integer -> float is not exact there)".to_string()
                } else {
                    format!("C12|type-level-collapse|{}", pair)
                },
                format!("the {} values of {} convert to only {} values: {}", src.len(), a, dst.len(), t),
                json!({"A": a.to_string(), "B": b.to_string(), "converted_type": t.to_string()}),
            );
        }
    }
    // into_data_type is the same thing by another door
    if let Ok(Ok(t2)) = guarded(|| a.into_data_type(&b)) {
        if t2 != t {
            rep.violation(
                format!("C12|into_data_type-differs|{}", pair),
                format!("into_data_type gives {} but inject_into().super_image gives {}", t2, t),
                json!({"A": a.to_string(), "B": b.to_string()}),
            );
        }
    }
    for _ in 0..4 {
        let v1 = match gen_value_in(&mut r, &a) {
            Some(v) => v,
            None => return,
        };
        if member_premise(&v1, &a) != Some(true) {
            continue;
        }
        let v2 = neighbour(&mut r, &v1, &a);
        let conv = |v: &Value| guarded(|| inj.value(v));
        let w1 = match conv(&v1) {
            Ok(Ok(w)) => w,
            Ok(Err(_)) => {
                rep.count(&format!("value_refused:{}", pair));
                continue;
            }
            Err(_) => {
                rep.count("value_panics");
                continue;
            }
        };
        rep.eval();
        let cj = |extra: serde_json::Value| {
            let mut c = json!({"A": a.to_string(), "B": b.to_string(), "converted_type": t.to_string(),
                "v": v1.to_string(), "v_debug": format!("{:?}", v1), "conv(v)": w1.to_string(), "conv_debug": format!("{:?}", w1)});
            if let (Some(o), Some(e)) = (c.as_object_mut(), extra.as_object()) {
                for (k, v) in e {
                    o.insert(k.clone(), v.clone());
                }
            }
            c
        };
        fn has_zero_float(v: &Value) -> bool {
            match v {
                Value::Float(f) => **f == 0.0,
                Value::Optional(o) => o.as_deref().map_or(false, has_zero_float),
                Value::Struct(s) => s.fields().iter().any(|(_, x)| has_zero_float(x)),
                Value::List(l) => l.iter().any(has_zero_float),
                _ => false,
            }
        }
        let negzero = has_zero_float(&v1);
        // integer -> float beyond 2^53 is the recorded inexact direction; a float beyond 2^53 is an exact
        // integer and converts exactly to i64 or must be refused
        let big = beyond_int(&v1);
        let sig = |kind: &str| -> String {
            if big {
                format!("C12|{}|some number beyond 2^53 (integer -> float is not exact there)", kind)
            } else if negzero {
                format!("C12|{}|negative zero", kind)
            } else {
                format!("C12|{}|{}", kind, pair)
            }
        };
        rep.nontrivial(hash64(&(a.to_string(), b.to_string(), v1.to_string())));
        // (1) the converted value lies in the converted type
        if member(&w1, &t) == Some(false) {
            rep.violation(
                sig("outside-converted-type"),
                format!("conv({}) = {} is not in the converted type {}", v1, w1, t),
                cj(json!({})),
            );
        }
        // (2) numeric conversions keep the number (a lossy conversion must be refused)
        if let (Some(_), Some(_)) = (num_of(&v1), num_of(&w1)) {
            if canon_eq(&v1, &w1) == Some(false) {
                rep.violation(
                    sig("value-changed"),
                    format!("conv({}) = {}: the number changed (lossy conversion not refused)", v1, w1),
                    cj(json!({})),
                );
            }
        }
        // (3) injectivity on an adjacent pair
        if let Some(v2) = v2 {
            if canon_eq(&v1, &v2) == Some(false) {
                if let Ok(Ok(w2)) = conv(&v2) {
                    rep.count("pairs_checked_for_injectivity");
                    if w1 == w2 {
                        rep.violation(
                            if beyond_int(&v2) { "C12|not-injective|some number beyond 2^53 (integer -> float is not exact there)".to_string() } else { sig("not-injective") },
                            format!("{} and {} both convert to {}", v1, v2, w1),
                            cj(json!({"v2": v2.to_string(), "v2_debug": format!("{:?}", v2)})),
                        );
                    }
                }
            }
        }
        // (4) round trip through the library's own reverse conversion, when it exists
        // scalars only: the "maximal superset" of a struct or a list says nothing about its elements
        if !matches!(
            a,
            DataType::Boolean(_) | DataType::Integer(_) | DataType::Float(_) | DataType::Text(_) | DataType::Date(_)
                | DataType::DateTime(_) | DataType::Time(_) | DataType::Duration(_)
        ) {
            continue;
        }
        let back_target = match guarded(|| a.maximal_superset()) {
            Ok(Ok(m)) => m,
            _ => continue,
        };
        if let Ok(Ok(back)) = guarded(|| w1.as_data_type(&back_target)) {
            rep.count("round_trips");
            if canon_eq(&v1, &back) == Some(false) && v1 != back {
                // composite values compare structurally
                rep.violation(
                    sig("round-trip"),
                    format!("{} -> {} -> {}", v1, w1, back),
                    cj(json!({"back": back.to_string(), "back_debug": format!("{:?}", back)})),
                );
            }
        }
        rep.sample(|| cj(json!({})));
    }
}

/// The typed conversions (`injection::From(A).into(B)`), which the `DataType`-level entry points only
/// partly expose (a float value, for instance, is never converted to an integer through them).
fn typed_pair<D, C>(
    name: &str,
    dom: D,
    co: C,
    vals: &[D::Element],
    same: &dyn Fn(&D::Element, &C::Element) -> Option<bool>,
    known_class: &dyn Fn(&D::Element) -> Option<&'static str>,
    rep: &mut Report,
) where
    D: qrlew::data_type::Variant + Clone + std::fmt::Display,
    C: qrlew::data_type::Variant + Clone + std::fmt::Display,
    qrlew::data_type::injection::Base<D, C>: Injection<Domain = D, CoDomain = C>,
    D::Element: Clone + PartialEq + std::fmt::Debug,
    C::Element: Clone + PartialEq + std::fmt::Debug,
{
    let built = guarded(|| qrlew::data_type::injection::From(dom.clone()).into(co.clone()));
    let inj = match built {
        Ok(Ok(i)) => i,
        _ => {
            rep.count(&format!("typed_refused:{}", name));
            return;
        }
    };
    let image = guarded(|| inj.super_image(&dom)).ok().and_then(|x| x.ok());
    let mut done: Vec<(D::Element, C::Element)> = vec![];
    for v in vals.iter() {
        if !dom.contains(v) {
            continue;
        }
        let w = match guarded(|| inj.value(v)) {
            Ok(Ok(w)) => w,
            Ok(Err(_)) => {
                rep.count(&format!("typed_value_refused:{}", name));
                continue;
            }
            Err(_) => {
                rep.count("typed_value_panics");
                continue;
            }
        };
        rep.eval();
        rep.count(&format!("typed_converted:{}", name));
        rep.nontrivial(hash64(&(name.to_string(), format!("{:?}", v))));
        let class = |kind: &str| match known_class(v) {
            Some(c) => format!("C12|{}|{}", kind, c),
            None => format!("C12|{}|typed {}", kind, name),
        };
        let case = |extra: String| json!({"conversion": name, "domain": dom.to_string(), "co_domain": co.to_string(), "v": format!("{:?}", v), "conv(v)": format!("{:?}", w), "detail": extra});
        if let Some(t) = &image {
            if !t.contains(&w) {
                rep.violation(class("outside-converted-type"), format!("conv({:?}) = {:?} is not in the converted type {}", v, w, t), case(String::new()));
            }
        }
        if same(v, &w) == Some(false) {
            rep.violation(class("value-changed"), format!("conv({:?}) = {:?}: the value changed (a lossy conversion must be refused)", v, w), case(String::new()));
        }
        for (v0, w0) in done.iter() {
            if v0 != v && *w0 == w {
                rep.count("pairs_checked_for_injectivity");
                rep.violation(
                    match known_class(v).or(known_class(v0)) {
                        Some(c) => format!("C12|not-injective|{}", c),
                        None => format!("C12|not-injective|typed {}", name),
                    },
                    format!("{:?} and {:?} both convert to {:?}", v0, v, w),
                    case(format!("{:?}", v0)),
                );
            }
        }
        done.push((v.clone(), w));
    }
}

fn typed_case(i: u64, p: &Params, rep: &mut Report) {
    use qrlew::data_type as dt;
    use qrlew::data_type::value as val;
    let mut r = p.rng(i ^ 0x7E_0000_0000);
    const BIG: &str = "some number beyond 2^53 (integer -> float is not exact there)";
    match r.below(9) {
        0 | 1 => {
            // float -> integer: integral floats convert exactly, the others (and those outside i64) are refused
            let pool = [4.0, -7.0, 0.5, 2.5, 1e15, 9007199254740992.0, 9007199254740994.0, 9.3e18, -9.3e18, 9223372036854775808.0, -9223372036854775808.0, 1e19, 1e30, 2e30, -3e25, 1.8e19];
            let fs: Vec<f64> = (0..2 + r.usize(4)).map(|_| if r.bool() { *r.pick(&pool) } else { int_any(&mut r) as f64 }).collect();
            let vals: Vec<val::Float> = fs.iter().map(|f| (*f).into()).collect();
            typed_pair(
                "Float->Integer",
                dt::Float::from_values(fs.clone()),
                dt::Integer::default(),
                &vals,
                &|v, w| Some((**w as f64) == **v && (**w as i128) == (**v as i128)),
                &|_| None,
                rep,
            );
        }
        2 => {
            let is: Vec<i64> = (0..2 + r.usize(4)).map(|_| if r.chance(1, 3) { *r.pick(&[(1i64 << 53) + 1, (1i64 << 53) + 2, i64::MAX, i64::MAX - 1, i64::MIN, -(1i64 << 53) - 1]) } else { r.range(-1000, 1000) }).collect();
            let vals: Vec<val::Integer> = is.iter().map(|x| (*x).into()).collect();
            typed_pair(
                "Integer->Float",
                dt::Integer::from_values(is.clone()),
                dt::Float::default(),
                &vals,
                &|v, w| Some((**w as i128) == (**v as i128) && w.fract() == 0.0),
                &|v| if v.unsigned_abs() > (1u64 << 53) { Some(BIG) } else { None },
                rep,
            );
        }
        3 => {
            let is: Vec<i64> = vec![0, 1, 2, -1, r.range(-3, 3)];
            let vals: Vec<val::Integer> = is.iter().map(|x| (*x).into()).collect();
            typed_pair(
                "Integer->Boolean",
                dt::Integer::from_values(is.clone()),
                dt::Boolean::default(),
                &vals,
                &|v, w| Some((**v == 1) == **w && (**v == 0 || **v == 1)),
                &|_| None,
                rep,
            );
            let bs: Vec<val::Boolean> = vec![true.into(), false.into()];
            typed_pair("Boolean->Integer", dt::Boolean::default(), dt::Integer::default(), &bs, &|v, w| Some((**w == 1) == **v && (**w == 0 || **w == 1)), &|_| None, rep);
        }
        4 => {
            let ds: Vec<chrono::NaiveDate> = (0..3).map(|_| clamp_date(date_any(&mut r))).collect();
            let vals: Vec<val::Date> = ds.iter().map(|d| (*d).into()).collect();
            typed_pair("Date->DateTime", dt::Date::from_values(ds.clone()), dt::DateTime::default(), &vals, &|v, w| Some(w.date() == **v), &|_| None, rep);
            typed_pair("Date->Text", dt::Date::from_values(ds.clone()), dt::Text::default(), &vals, &|_, _| None, &|_| None, rep);
        }
        5 => {
            let base = clamp_date(date_any(&mut r)).and_hms_opt(10, 0, 0).unwrap();
            // around midnight too: only exact midnights are dates
            let midnight = clamp_date(date_any(&mut r)).and_hms_opt(0, 0, 0).unwrap();
            let ts = vec![
                base,
                base + chrono::Duration::milliseconds(500),
                base + chrono::Duration::seconds(1),
                base + chrono::Duration::microseconds(1),
                datetime_any(&mut r),
                midnight,
                midnight + chrono::Duration::milliseconds(250),
                midnight + chrono::Duration::nanoseconds(1),
                midnight + chrono::Duration::seconds(1),
            ];
            let vals: Vec<val::DateTime> = ts.iter().map(|d| (*d).into()).collect();
            typed_pair("DateTime->Text", dt::DateTime::from_values(ts.clone()), dt::Text::default(), &vals, &|_, _| None, &|_| None, rep);
            typed_pair("DateTime->Date", dt::DateTime::from_values(ts.clone()), dt::Date::default(), &vals, &|v, w| Some(v.date() == **w && v.time() == chrono::NaiveTime::MIN), &|_| None, rep);
        }
        6 => {
            let fs: Vec<f64> = (0..4).map(|_| if r.bool() { float_any(&mut r) } else { r.range(-50, 50) as f64 / 4.0 }).filter(|f| *f != 0.0 && f.is_finite()).collect();
            if fs.is_empty() {
                return;
            }
            // adjacent floats must print differently
            let mut all = fs.clone();
            all.push(f64::from_bits(fs[0].to_bits() + 1));
            let vals: Vec<val::Float> = all.iter().map(|f| (*f).into()).collect();
            typed_pair("Float->Text", dt::Float::from_values(all.clone()), dt::Text::default(), &vals, &|v, w| w.parse::<f64>().ok().map(|x| x == **v), &|_| None, rep);
        }
        7 => {
            let is: Vec<i64> = (0..4).map(|_| int_any(&mut r)).collect();
            let vals: Vec<val::Integer> = is.iter().map(|x| (*x).into()).collect();
            typed_pair("Integer->Text", dt::Integer::from_values(is.clone()), dt::Text::default(), &vals, &|v, w| w.parse::<i64>().ok().map(|x| x == **v), &|_| None, rep);
        }
        _ => {
            let t0 = time_any(&mut r);
            let ts = vec![t0, t0.overflowing_add_signed(chrono::Duration::milliseconds(250)).0, time_any(&mut r)];
            let vals: Vec<val::Time> = ts.iter().map(|d| (*d).into()).collect();
            typed_pair("Time->Text", dt::Time::from_values(ts.clone()), dt::Text::default(), &vals, &|_, _| None, &|_| None, rep);
            let ss: Vec<String> = vec![text_any(&mut r), text_any(&mut r), "a".into(), "a ".into()];
            let vals: Vec<val::Text> = ss.iter().map(|x| x.clone().into()).collect();
            typed_pair("Text->Bytes", dt::Text::from_values(ss.clone()), dt::Bytes::default(), &vals, &|_, _| None, &|_| None, rep);
        }
    }
}

pub fn run(p: &Params) -> Report {
    let mut rep = Report::for_params("C12", p);
    let pp = p.clone();
    drive(
        p.cases,
        &mut rep,
        &|i, rep| if i % 5 == 4 { typed_case(i, &pp, rep) } else { case(i, &pp, rep) },
        &|i, pi, rep| {
            rep.count("harness_level_panics");
            if rep.notes.len() < 5 {
                rep.notes.push(format!("panic in case {}: {} at {}", i, pi.message, pi.location));
            }
        },
    );
    rep
}
