//! C12 — type conversions are value-preserving injections within the converted type.
use crate::gen::types::*;
use crate::mon::c11::vname;
use crate::oracle::member::{canon_eq, member, member_premise, num_of, Num};
use crate::util::*;
use qrlew::data_type::injection::{InjectInto, Injection};
use qrlew::data_type::value::{Value, Variant as _};
use qrlew::data_type::{DataType, Variant as _};
use serde_json::json;

fn target(r: &mut Rng, a: &DataType) -> DataType {
    match r.below(16) {
        0 | 1 => DataType::float(),
        2 | 3 => DataType::integer(),
        4 | 5 => DataType::text(),
        6 => DataType::boolean(),
        7 => DataType::date_time(),
        8 => DataType::date(),
        9 => DataType::bytes(),
        10 => DataType::optional(target(r, a)),
        11 => match a {
            // liftings: same shape, converted inside
            DataType::List(l) => DataType::list(target(r, l.data_type()), 0, 10),
            DataType::Optional(o) => DataType::optional(target(r, o.data_type())),
            DataType::Struct(s) => DataType::structured(
                s.fields().iter().map(|(n, t)| (n.clone(), target(r, t))).collect::<Vec<_>>(),
            ),
            DataType::Set(l) => DataType::set(target(r, l.data_type()), 0, 10),
            DataType::Array(l) => DataType::array(target(r, l.data_type()), l.shape()),
            _ => DataType::Any,
        },
        12 => DataType::Integer(gen_integer(r)),
        13 => DataType::Float(gen_float(r)),
        14 => DataType::duration(),
        _ => DataType::time(),
    }
}

fn source(r: &mut Rng) -> DataType {
    match r.below(12) {
        0 | 1 => DataType::Integer(gen_integer(r)),
        2 | 3 => DataType::Float(gen_float(r)),
        4 => DataType::Boolean(gen_boolean(r)),
        5 => DataType::Text(gen_text(r)),
        6 => DataType::Date(gen_date(r)),
        7 => DataType::DateTime(gen_datetime(r)),
        8 => {
            // float types made of integral values (convertible to integer)
            let vs: Vec<f64> = (0..1 + r.usize(4)).map(|_| int_any(r) as f64).collect();
            DataType::float_values(vs)
        }
        9 => DataType::integer_values([0, 1]),
        10 => {
            let inner = source(r);
            match r.below(3) {
                0 => DataType::optional(inner),
                1 => DataType::list(inner, 0, 3),
                _ => DataType::structured([("a", inner), ("b", DataType::Integer(gen_integer(r)))]),
            }
        }
        _ => gen_primitive(r),
    }
}

/// a value adjacent to `v` inside `a` (neighbouring integer, adjacent float, one-byte-different text)
fn neighbour(r: &mut Rng, v: &Value, a: &DataType) -> Option<Value> {
    let cand = match v {
        Value::Integer(i) => Value::integer(if r.bool() { i.checked_add(1)? } else { i.checked_sub(1)? }),
        Value::Float(f) => {
            let b = f.to_bits();
            let n = f64::from_bits(if r.bool() { b.wrapping_add(1) } else { b.wrapping_sub(1) });
            if !n.is_finite() {
                return None;
            }
            Value::float(n)
        }
        Value::Text(s) => {
            let mut t = s.to_string();
            if r.bool() || t.is_empty() {
                t.push('a');
            } else {
                t.pop();
            }
            Value::text(t)
        }
        Value::Date(d) => Value::date(d.succ_opt()?),
        Value::DateTime(d) => Value::date_time(d.checked_add_signed(chrono::Duration::seconds(1))?),
        Value::Boolean(b) => Value::boolean(!**b),
        _ => return gen_value_in(r, a),
    };
    if member_premise(&cand, a) == Some(true) {
        Some(cand)
    } else {
        gen_value_in(r, a)
    }
}

fn beyond(v: &Value) -> bool {
    fn walk(v: &Value) -> bool {
        match v {
            Value::Optional(o) => o.as_deref().map_or(false, walk),
            Value::Struct(s) => s.fields().iter().any(|(_, x)| walk(x)),
            Value::List(l) => l.iter().any(walk),
            v => match num_of(v) {
                Some(Num::I(i)) => i.unsigned_abs() > (1u64 << 53),
                Some(Num::F(f)) => f.abs() > 9.0e15,
                None => false,
            },
        }
    }
    walk(v)
}

fn case(i: u64, p: &Params, rep: &mut Report) {
    let mut r = p.rng(i);
    let a = source(&mut r);
    let b = target(&mut r, &a);
    let pair = format!("{}->{}", vname(&a), vname(&b));
    let inj = match guarded(|| a.inject_into(&b)) {
        Ok(Ok(inj)) => inj,
        Ok(Err(_)) => {
            rep.count(&format!("refused:{}", pair));
            return;
        }
        Err(pi) => {
            rep.count("inject_into_panics");
            if rep.notes.len() < 5 {
                rep.notes.push(format!("inject_into({}, {}) panics: {} at {}", a, b, pi.message, pi.location));
            }
            return;
        }
    };
    let img = guarded(|| inj.super_image(&a));
    let t = match img {
        Ok(Ok(t)) => t,
        Ok(Err(_)) => {
            rep.count(&format!("image_refused:{}", pair));
            return;
        }
        Err(pi) => {
            rep.count("super_image_panics");
            if rep.notes.len() < 8 {
                rep.notes.push(format!("super_image of {} into {} panics: {} at {}", a, b, pi.message, pi.location));
            }
            return;
        }
    };
    rep.count(&format!("converted:{}", pair));
    // into_data_type is the same thing by another door
    if let Ok(Ok(t2)) = guarded(|| a.into_data_type(&b)) {
        if t2 != t {
            rep.violation(
                format!("C12|into_data_type-differs|{}", pair),
                format!("into_data_type gives {} but inject_into().super_image gives {}", t2, t),
                json!({"A": a.to_string(), "B": b.to_string()}),
            );
        }
    }
    for _ in 0..4 {
        let v1 = match gen_value_in(&mut r, &a) {
            Some(v) => v,
            None => return,
        };
        if member_premise(&v1, &a) != Some(true) {
            continue;
        }
        let v2 = neighbour(&mut r, &v1, &a);
        let conv = |v: &Value| guarded(|| inj.value(v));
        let w1 = match conv(&v1) {
            Ok(Ok(w)) => w,
            Ok(Err(_)) => {
                rep.count(&format!("value_refused:{}", pair));
                continue;
            }
            Err(_) => {
                rep.count("value_panics");
                continue;
            }
        };
        rep.eval();
        let cj = |extra: serde_json::Value| {
            let mut c = json!({"A": a.to_string(), "B": b.to_string(), "converted_type": t.to_string(),
                "v": v1.to_string(), "v_debug": format!("{:?}", v1), "conv(v)": w1.to_string(), "conv_debug": format!("{:?}", w1)});
            if let (Some(o), Some(e)) = (c.as_object_mut(), extra.as_object()) {
                for (k, v) in e {
                    o.insert(k.clone(), v.clone());
                }
            }
            c
        };
        let negzero = matches!(&v1, Value::Float(f) if **f == 0.0);
        let big = beyond(&v1) || beyond(&w1);
        let sig = |kind: &str| -> String {
            if big {
                format!("C12|{}|some number beyond 2^53 (integer -> float is not exact there)", kind)
            } else if negzero {
                format!("C12|{}|negative zero", kind)
            } else {
                format!("C12|{}|{}", kind, pair)
            }
        };
        rep.nontrivial(hash64(&(a.to_string(), b.to_string(), v1.to_string())));
        // (1) the converted value lies in the converted type
        if member(&w1, &t) == Some(false) {
            rep.violation(
                sig("outside-converted-type"),
                format!("conv({}) = {} is not in the converted type {}", v1, w1, t),
                cj(json!({})),
            );
        }
        // (2) numeric conversions keep the number (a lossy conversion must be refused)
        if let (Some(_), Some(_)) = (num_of(&v1), num_of(&w1)) {
            if canon_eq(&v1, &w1) == Some(false) {
                rep.violation(
                    sig("value-changed"),
                    format!("conv({}) = {}: the number changed (lossy conversion not refused)", v1, w1),
                    cj(json!({})),
                );
            }
        }
        // (3) injectivity on an adjacent pair
        if let Some(v2) = v2 {
            if canon_eq(&v1, &v2) == Some(false) {
                if let Ok(Ok(w2)) = conv(&v2) {
                    rep.count("pairs_checked_for_injectivity");
                    if w1 == w2 {
                        rep.violation(
                            if beyond(&v2) { "C12|not-injective|some number beyond 2^53 (integer -> float is not exact there)".to_string() } else { sig("not-injective") },
                            format!("{} and {} both convert to {}", v1, v2, w1),
                            cj(json!({"v2": v2.to_string(), "v2_debug": format!("{:?}", v2)})),
                        );
                    }
                }
            }
        }
        // (4) round trip through the library's own reverse conversion, when it exists
        // scalars only: the "maximal superset" of a struct or a list says nothing about its elements
        if !matches!(
            a,
            DataType::Boolean(_) | DataType::Integer(_) | DataType::Float(_) | DataType::Text(_) | DataType::Date(_)
                | DataType::DateTime(_) | DataType::Time(_) | DataType::Duration(_)
        ) {
            continue;
        }
        let back_target = match guarded(|| a.maximal_superset()) {
            Ok(Ok(m)) => m,
            _ => continue,
        };
        if let Ok(Ok(back)) = guarded(|| w1.as_data_type(&back_target)) {
            rep.count("round_trips");
            if canon_eq(&v1, &back) == Some(false) && v1 != back {
                // composite values compare structurally
                rep.violation(
                    sig("round-trip"),
                    format!("{} -> {} -> {}", v1, w1, back),
                    cj(json!({"back": back.to_string(), "back_debug": format!("{:?}", back)})),
                );
            }
        }
        rep.sample(|| cj(json!({})));
    }
}

pub fn run(p: &Params) -> Report {
    let mut rep = Report::for_params("C12", p);
    let pp = p.clone();
    drive(
        p.cases,
        &mut rep,
        &|i, rep| case(i, &pp, rep),
        &|i, pi, rep| {
            rep.count("harness_level_panics");
            if rep.notes.len() < 5 {
                rep.notes.push(format!("panic in case {}: {} at {}", i, pi.message, pi.location));
            }
        },
    );
    rep
}
