//! Self-tests of the reference code the monitors trust (run by `./check --setup`).
use crate::exec::sqlite::{md5_hex, Db, RandomMode, V};
use crate::oracle::member::*;
use qrlew::data_type::value::Value;
use qrlew::data_type::DataType;
use std::cmp::Ordering;

pub fn run() -> i32 {
    let mut failed = 0;
    let mut check = |name: &str, ok: bool| {
        if !ok {
            eprintln!("SELFTEST FAILED: {}", name);
            failed += 1;
        }
    };
    // exact integer / float comparison
    check("cmp_i_f 2^53+1 > 2^53.0", cmp_i_f(9007199254740993, 9007199254740992.0) == Some(Ordering::Greater));
    check("cmp_i_f 3 < 3.5", cmp_i_f(3, 3.5) == Some(Ordering::Less));
    check("cmp_i_f -4 < -3.5", cmp_i_f(-4, -3.5) == Some(Ordering::Less));
    check("cmp_i_f max < 1e19", cmp_i_f(i64::MAX, 1e19) == Some(Ordering::Less));
    // membership
    let t = DataType::integer_interval(0, 10);
    check("5 in int[0 10]", member(&Value::integer(5), &t) == Some(true));
    check("11 not in int[0 10]", member(&Value::integer(11), &t) == Some(false));
    check("5.0 in int[0 10]", member(&Value::float(5.0), &t) == Some(true));
    check("5.5 not in int[0 10]", member(&Value::float(5.5), &t) == Some(false));
    check("NULL not in int", member(&Value::none(), &t) == Some(false));
    check("NULL in option(int)", member(&Value::none(), &DataType::optional(t.clone())) == Some(true));
    check("true in int{1}", member(&Value::boolean(true), &DataType::integer_value(1)) == Some(true));
    check("text", member(&Value::text("b"), &DataType::text_values(["a".to_string(), "b".to_string()])) == Some(true));
    check("text out", member(&Value::text("c"), &DataType::text_values(["a".to_string(), "b".to_string()])) == Some(false));
    check("0.5 not in bool", member(&Value::float(0.5), &DataType::boolean()) == Some(false));
    // md5 test vectors (RFC 1321)
    check("md5('')", md5_hex(b"") == "d41d8cd98f00b204e9800998ecf8427e");
    check("md5('abc')", md5_hex(b"abc") == "900150983cd24fb0d6963f7d28e17f72");
    check("md5(long)", md5_hex(b"12345678901234567890123456789012345678901234567890123456789012345678901234567890") == "57edf4a22be3c955ac49da2e2107b67a");
    // compatibility layer
    let db = Db::new(true, RandomMode::Const(1.0));
    let one = |sql: &str| db.query(sql).ok().and_then(|r| r.rows.get(0).and_then(|x| x.get(0).cloned()));
    check("greatest skips NULL", one("SELECT greatest(1, NULL, 3)") == Some(V::Int(3)));
    check("least skips NULL", one("SELECT least(NULL, 2.5, 3)") == Some(V::Real(2.5)));
    check("concat", one("SELECT concat('a', 1, NULL, 'b')") == Some(V::Text("a1b".into())));
    check("char_length", one("SELECT char_length('héllo')") == Some(V::Int(5)));
    check("md5 udf", one("SELECT md5('abc')") == Some(V::Text("900150983cd24fb0d6963f7d28e17f72".into())));
    check("random const", one("SELECT random()") == Some(V::Real(1.0)));
    check("zero noise", one("SELECT sqrt(-2.0 * ln(random())) * cos(2 * 3.141592653589793 * random())").map(|v| v.as_f64() == Some(0.0)).unwrap_or(false));
    check("variance sample", one("SELECT variance(x) FROM (SELECT 10 AS x UNION ALL SELECT 20 UNION ALL SELECT 40 UNION ALL SELECT -5)").and_then(|v| v.as_f64()).map(|v| (v - 356.25).abs() < 1e-9).unwrap_or(false));
    check("double-quoted unknown name is an error", db.query("SELECT \"nope\" FROM (SELECT 1 AS x)").is_err());
    db.set_random(RandomMode::Counter);
    let a = one("SELECT random()").and_then(|v| v.as_f64()).unwrap_or(0.0);
    let b = one("SELECT random()").and_then(|v| v.as_f64()).unwrap_or(0.0);
    check("counter increasing in (0,1)", a > 0.0 && a < b && b < 1.0);
    // staged execution with the VALUES shim
    let staged = db.staged(
        "WITH \"v\" (\"c\") AS (SELECT * FROM (VALUES (1), (2)) AS \"v\" (\"c\")), \"m\" (\"d\") AS (SELECT \"c\" + 1 AS \"d\" FROM \"v\") SELECT * FROM \"m\"",
        &mut |_, _, _| Ok(()),
    );
    check("staged", staged.map(|(s, r)| s.len() == 2 && r.rows.len() == 2).unwrap_or(false));
    if failed == 0 {
        println!("selftest: all reference checks passed");
        0
    } else {
        1
    }
}
