//! Independent structural membership `value ∈ data type`, written only with public accessors
//! (interval bounds, struct fields, optional payload). It never calls `contains`.
//! Numeric variants are compared through the canonical embedding bool ⊂ int ⊂ float,
//! dates through date ⊂ datetime (midnight).
use qrlew::data_type::value::Value;
use qrlew::data_type::DataType;
use std::cmp::Ordering;

#[derive(Clone, Copy, Debug)]
pub enum Num {
    I(i64),
    F(f64),
}

/// Exact comparison of an i64 with an f64
pub fn cmp_i_f(i: i64, f: f64) -> Option<Ordering> {
    if f.is_nan() {
        return None;
    }
    if f >= 9.3e18 {
        return Some(Ordering::Less);
    }
    if f <= -9.3e18 {
        return Some(Ordering::Greater);
    }
    // |f| < 2^63.x : floor fits in i128
    let fl = f.floor();
    let fi = fl as i128;
    match (i as i128).cmp(&fi) {
        Ordering::Equal => {
            if f > fl {
                Some(Ordering::Less)
            } else {
                Some(Ordering::Equal)
            }
        }
        o => Some(o),
    }
}

pub fn cmp_num(a: Num, b: Num) -> Option<Ordering> {
    match (a, b) {
        (Num::I(x), Num::I(y)) => Some(x.cmp(&y)),
        (Num::F(x), Num::F(y)) => x.partial_cmp(&y),
        (Num::I(x), Num::F(y)) => cmp_i_f(x, y),
        (Num::F(x), Num::I(y)) => cmp_i_f(y, x).map(|o| o.reverse()),
    }
}

/// a <= b under the laxer of two readings of the int -> float embedding: exact, or rounded
/// to the nearest float (what `as f64` does). Loss of injectivity above 2^53 is C12's subject.
fn le_mode(a: Num, b: Num, mode: Mode) -> bool {
    let exact = matches!(cmp_num(a, b), Some(Ordering::Less | Ordering::Equal));
    let f = |n: Num| match n {
        Num::I(i) => i as f64,
        Num::F(f) => f,
    };
    match (a, b) {
        (Num::I(_), Num::F(_)) | (Num::F(_), Num::I(_)) => {
            let rounded = f(a) <= f(b);
            match mode {
                Mode::Premise => exact && rounded,
                Mode::Conclusion => exact || rounded,
            }
        }
        _ => exact,
    }
}

/// How a membership answer is going to be used. The int -> float embedding has two readings
/// (exact, or rounded to the nearest float as `as f64` does); a *premise* (v ∈ A) must hold
/// under both, a *conclusion* (v ∈ result) is only refuted if it fails under both.
#[derive(Clone, Copy, Debug, PartialEq)]
pub enum Mode {
    Premise,
    Conclusion,
}

pub fn num_of(v: &Value) -> Option<Num> {
    match v {
        Value::Boolean(b) => Some(Num::I(if **b { 1 } else { 0 })),
        Value::Integer(i) => Some(Num::I(**i)),
        Value::Float(f) => Some(Num::F(**f)),
        Value::Enum(e) => Some(Num::I(e.0)),
        Value::Optional(o) => match o.as_ref() {
            Some(x) => num_of(x),
            None => None,
        },
        _ => None,
    }
}

fn in_num_intervals(n: Num, mode: Mode, mut bounds: &mut dyn Iterator<Item = (Num, Num)>) -> bool {
    let bounds = &mut bounds;
    bounds.into_iter().any(|(a, b)| le_mode(a, n, mode) && le_mode(n, b, mode))
}

/// Some(true/false) when the oracle can judge, None when the pair is outside what it models
pub fn member(v: &Value, t: &DataType) -> Option<bool> {
    member_mode(v, t, Mode::Conclusion)
}

/// Membership used as a premise
pub fn member_premise(v: &Value, t: &DataType) -> Option<bool> {
    member_mode(v, t, Mode::Premise)
}

pub fn member_mode(v: &Value, t: &DataType, mode: Mode) -> Option<bool> {
    match (v, t) {
        (_, DataType::Any) => Some(true),
        (_, DataType::Null) => Some(false),
        // optional handling
        (Value::Optional(o), DataType::Optional(ot)) => match o.as_ref() {
            None => Some(true),
            Some(x) => member_mode(x, ot.data_type(), mode),
        },
        // the unit value is the library's NULL
        (Value::Unit(_), DataType::Unit(_)) => Some(true),
        (Value::Unit(_), _) => None,
        (v, DataType::Optional(ot)) => member_mode(v, ot.data_type(), mode),
        (Value::Optional(o), t) => match o.as_ref() {
            None => {
                if matches!(t, DataType::Unit(_)) {
                    None
                } else {
                    Some(false)
                }
            }
            Some(x) => member_mode(x, t, mode),
        },
        // numerics
        (Value::Boolean(_) | Value::Integer(_) | Value::Float(_), DataType::Boolean(b)) => {
            let n = num_of(v)?;
            match n {
                Num::I(0) | Num::I(1) => {}
                Num::F(x) if x == 0.0 || x == 1.0 => {}
                _ => return Some(false),
            }
            Some(in_num_intervals(
                n,
                mode,
                &mut b.iter().map(|[x, y]| (Num::I(*x as i64), Num::I(*y as i64))),
            ))
        }
        (Value::Boolean(_) | Value::Integer(_) | Value::Float(_), DataType::Integer(i)) => {
            let n = num_of(v)?;
            if let Num::F(x) = n {
                if x.fract() != 0.0 {
                    return Some(false);
                }
            }
            Some(in_num_intervals(n, mode, &mut i.iter().map(|[x, y]| (Num::I(*x), Num::I(*y)))))
        }
        (Value::Boolean(_) | Value::Integer(_) | Value::Float(_), DataType::Float(f)) => {
            let n = num_of(v)?;
            if let Num::F(x) = n {
                if x.is_nan() {
                    return None;
                }
            }
            Some(in_num_intervals(n, mode, &mut f.iter().map(|[x, y]| (Num::F(*x), Num::F(*y)))))
        }
        (Value::Enum(e), DataType::Enum(et)) => {
            let name = e.1.iter().find(|(_, c)| *c == e.0).map(|(n, _)| n.clone());
            Some(match name {
                Some(n) => et.iter().any(|(tn, tc)| *tn == n && *tc == e.0),
                None => false,
            })
        }
        (Value::Text(s), DataType::Text(tt)) => {
            let s: &String = s;
            Some(tt.iter().any(|[a, b]| a <= s && s <= b))
        }
        (Value::Bytes(_), DataType::Bytes(_)) => Some(true),
        (Value::Id(_), DataType::Id(_)) => Some(true),
        (Value::Date(d), DataType::Date(dt)) => Some(dt.iter().any(|[a, b]| a <= &**d && &**d <= b)),
        (Value::Time(d), DataType::Time(dt)) => Some(dt.iter().any(|[a, b]| a <= &**d && &**d <= b)),
        (Value::DateTime(d), DataType::DateTime(dt)) => {
            Some(dt.iter().any(|[a, b]| a <= &**d && &**d <= b))
        }
        (Value::Date(d), DataType::DateTime(dt)) => {
            let m = d.and_hms_opt(0, 0, 0)?;
            Some(dt.iter().any(|[a, b]| a <= &m && &m <= b))
        }
        // a date is the instant at midnight of that day: another instant is no date
        (Value::DateTime(d), DataType::Date(dt)) => {
            if d.time() != chrono::NaiveTime::MIN {
                Some(false)
            } else {
                let day = d.date();
                Some(dt.iter().any(|[a, b]| a <= &day && &day <= b))
            }
        }
        (Value::Duration(d), DataType::Duration(dt)) => {
            Some(dt.iter().any(|[a, b]| a <= &**d && &**d <= b))
        }
        (Value::Struct(s), DataType::Struct(st)) => {
            let mut all = true;
            for (name, ft) in st.fields() {
                match s.fields().iter().find(|(n, _)| n == name) {
                    None => return Some(false),
                    Some((_, fv)) => match member_mode(fv, ft, mode) {
                        Some(true) => {}
                        Some(false) => all = false,
                        None => return None,
                    },
                }
            }
            Some(all)
        }
        (Value::Union(u), DataType::Union(ut)) => {
            let (name, inner) = (&u.0, &u.1);
            match ut.fields().iter().find(|(n, _)| n == name) {
                None => Some(false),
                Some((_, ft)) => member_mode(inner, ft, mode),
            }
        }
        (Value::List(l), DataType::List(lt)) => {
            let n = l.len() as i64;
            if !lt.size().iter().any(|[a, b]| *a <= n && n <= *b) {
                return Some(false);
            }
            let mut all = true;
            for x in l.iter() {
                match member_mode(x, lt.data_type(), mode) {
                    Some(true) => {}
                    Some(false) => all = false,
                    None => return None,
                }
            }
            Some(all)
        }
        (Value::Set(s), DataType::Set(st)) => {
            let n = s.len() as i64;
            if !st.size().iter().any(|[a, b]| *a <= n && n <= *b) {
                return Some(false);
            }
            let mut all = true;
            for x in s.iter() {
                match member_mode(x, st.data_type(), mode) {
                    Some(true) => {}
                    Some(false) => all = false,
                    None => return None,
                }
            }
            Some(all)
        }
        (Value::Array(a), DataType::Array(at)) => {
            if a.1.as_slice() != at.shape() {
                return Some(false);
            }
            let mut all = true;
            for x in a.0.iter() {
                match member_mode(x, at.data_type(), mode) {
                    Some(true) => {}
                    Some(false) => all = false,
                    None => return None,
                }
            }
            Some(all)
        }
        (Value::Function(_), _) | (_, DataType::Function(_)) => None,
        // a union type may hold a bare value of one of its alternatives
        (v, DataType::Union(ut)) => {
            let mut any = false;
            for (_, ft) in ut.fields() {
                match member_mode(v, ft, mode) {
                    Some(true) => any = true,
                    _ => {}
                }
            }
            if any {
                Some(true)
            } else {
                None
            }
        }
        // different, non-embeddable variants: the oracle does not model text parsing etc.
        _ => None,
    }
}

/// `member` restricted to same-family pairs gives Some(false) for cross-family pairs that are
/// plainly disjoint (used to decide "definitely not a member")
pub fn definitely_not(v: &Value, t: &DataType) -> bool {
    matches!(member(v, t), Some(false))
}

/// Does the value contain a NULL anywhere
pub fn has_null(v: &Value) -> bool {
    match v {
        Value::Optional(o) => match o.as_ref() {
            None => true,
            Some(x) => has_null(x),
        },
        Value::Unit(_) => true,
        Value::Struct(s) => s.fields().iter().any(|(_, x)| has_null(x)),
        Value::List(l) => l.iter().any(has_null),
        Value::Set(l) => l.iter().any(has_null),
        Value::Array(a) => a.0.iter().any(has_null),
        Value::Union(u) => has_null(&u.1),
        _ => false,
    }
}

/// Is the value NULL
pub fn is_null(v: &Value) -> bool {
    matches!(v, Value::Optional(o) if o.is_none()) || matches!(v, Value::Unit(_))
}

/// Membership with a relative tolerance on floats: `value` and `super_image` may evaluate the
/// same mathematical function along different floating-point paths.
pub fn member_tol(v: &Value, t: &DataType, rel: f64) -> Option<bool> {
    match member(v, t) {
        Some(false) => {
            let x = match v {
                Value::Float(f) => **f,
                Value::Optional(o) => match o.as_deref() {
                    Some(Value::Float(f)) => **f,
                    _ => return Some(false),
                },
                _ => return Some(false),
            };
            let inner = match t {
                DataType::Optional(o) => o.data_type(),
                t => t,
            };
            if let DataType::Float(f) = inner {
                // relative, with an absolute floor: sin(2π) is -2.4e-16 along one path and 0 along another
                let tol = (rel * x.abs()).max(1e-12);
                if f.iter().any(|[a, b]| *a - tol.max(rel * a.abs()) <= x && x <= *b + tol.max(rel * b.abs())) {
                    return Some(true);
                }
            }
            Some(false)
        }
        other => other,
    }
}

/// Canonical comparable form of a scalar for equality across variants
pub fn canon_eq(a: &Value, b: &Value) -> Option<bool> {
    match (num_of(a), num_of(b)) {
        (Some(x), Some(y)) => Some(cmp_num(x, y) == Some(Ordering::Equal)),
        (None, None) => Some(a == b),
        _ => None,
    }
}
