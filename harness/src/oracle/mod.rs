pub mod member;
