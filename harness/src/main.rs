//! qv — runtime monitors for Qrlew/qrlew. One sub-command per property; one process = one shard.
mod exec;
mod gen;
mod mon;
mod oracle;
mod selftest;
mod util;

use std::collections::BTreeMap;
use util::{Params, Report};

fn usage() -> ! {
    eprintln!("usage: qv <property> [--seed N] [--shard I] [--shards N] [--cases N] [--out FILE] [--replay FILE] [--inflight FILE] [--key=value ...]");
    std::process::exit(2)
}

fn main() {
    let args: Vec<String> = std::env::args().collect();
    if args.len() < 2 {
        usage();
    }
    let prop = args[1].to_uppercase();
    let mut p = Params {
        seed: 1,
        shard: 0,
        shards: 1,
        cases: 1000,
        replay: None,
        inflight: None,
        extra: BTreeMap::new(),
    };
    let mut out: Option<String> = None;
    let mut i = 2;
    while i < args.len() {
        let a = &args[i];
        let mut val = || {
            i += 1;
            args.get(i).cloned().unwrap_or_else(|| usage())
        };
        match a.as_str() {
            "--seed" => p.seed = val().parse().unwrap_or(1),
            "--shard" => p.shard = val().parse().unwrap_or(0),
            "--shards" => p.shards = val().parse().unwrap_or(1),
            "--cases" => p.cases = val().parse().unwrap_or(1000),
            "--out" => out = Some(val()),
            "--replay" => p.replay = Some(val()),
            "--inflight" => p.inflight = Some(val()),
            "--only" => {
                let v: u64 = val().parse().unwrap_or(0);
                util::ONLY_CASE.with(|o| *o.borrow_mut() = Some(v));
                p.cases = p.cases.max(v + 1);
            }
            s if s.starts_with("--") && s.contains('=') => {
                let (k, v) = s[2..].split_once('=').unwrap();
                p.extra.insert(k.to_string(), v.to_string());
            }
            _ => usage(),
        }
        i += 1;
    }
    util::install_panic_hook();
    if let Some(b) = p.extra.get("budget").and_then(|b| b.parse::<u64>().ok()) {
        util::WORK_BUDGET.store(b, std::sync::atomic::Ordering::Relaxed);
    }
    let t0 = std::time::Instant::now();
    let report: Report = match prop.as_str() {
        "SELFTEST" => {
            std::process::exit(selftest::run());
        }
        "DEBUGSQL" => {
            debug_sql(&p);
            return;
        }
        "DEBUGC03" => {
            // one query under the C03 monitor: --sql=... [--case=N]
            let mut r = p.rng(p.num("case", 0));
            let opts = mon::c03::world_options(&mut r);
            let w = gen::catalog::gen_dp_world(&mut r, &opts);
            let params = gen::dpsql::gen_dp_parameters(&mut r);
            let sql = p.extra.get("sql").cloned().unwrap_or_default();
            let mut rep = util::Report::for_params("C03", &p);
            mon::c03::check(&sql, &w, &params, false, &["debug"], &mut rep);
            println!("{}", serde_json::to_string_pretty(&rep.to_json()).unwrap());
            return;
        }
        "DEBUGC12" => {
            use qrlew::data_type::injection::{InjectInto, Injection};
            use qrlew::data_type::{DataType, Variant as _};
            let a = DataType::float_values([1e30, 2e30, 4.0]);
            let b = DataType::integer();
            match a.inject_into(&b) {
                Ok(inj) => {
                    println!("image {:?}", inj.super_image(&a).map(|t| t.to_string()));
                    for v in [1e30, 2e30, 4.0] {
                        println!("value({}) = {:?}", v, inj.value(&qrlew::data_type::value::Value::float(v)).map(|w| w.to_string()));
                    }
                }
                Err(e) => println!("inject_into refused: {}", e),
            }
            println!("into_data_type {:?}", a.into_data_type(&b).map(|t| t.to_string()));
            return;
        }
        "DEBUGC11" => {
            use qrlew::data_type::{DataType, Variant as _};
            let d = |y, m, dd| chrono::NaiveDate::from_ymd_opt(y, m, dd).unwrap();
            let a = DataType::date_interval(d(2020, 1, 1), d(2020, 1, 5));
            let b = DataType::date_time_interval(d(2020, 1, 1).and_hms_opt(0, 0, 0).unwrap(), d(2020, 1, 5).and_hms_opt(0, 0, 0).unwrap());
            println!("a={} b={} b<=a {} a<=b {}", a, b, b.is_subset_of(&a), a.is_subset_of(&b));
            let v = qrlew::data_type::value::Value::date_time(d(2020, 1, 2).and_hms_opt(12, 0, 0).unwrap());
            println!("member(v,b)={:?} member(v,a)={:?} premise(v,b)={:?}", oracle::member::member(&v, &b), oracle::member::member(&v, &a), oracle::member::member_premise(&v, &b));
            println!("union {:?}", a.super_union(&b).map(|t| t.to_string()));
            let ea: qrlew::data_type::Enum = [("low", 0i64), ("high", 1)].into_iter().collect();
            let eb: qrlew::data_type::Enum = [("off", 0i64), ("on", 1), ("auto", 2)].into_iter().collect();
            let (ta, tb) = (DataType::Enum(ea.clone()), DataType::Enum(eb));
            let entries: std::sync::Arc<[(String, i64)]> = ea.iter().cloned().collect();
            let v = qrlew::data_type::value::Value::enumeration(0, entries);
            {
                let mut r = util::Rng::new(7);
                let (mut n, mut codes_sub, mut real_sub) = (0, 0, 0);
                for _ in 0..10000 {
                    let (x, y) = (gen::types::gen_enum(&mut r), gen::types::gen_enum(&mut r));
                    n += 1;
                    let yc: std::collections::BTreeSet<i64> = y.iter().map(|(_, c)| *c).collect();
                    if x.iter().all(|(_, c)| yc.contains(c)) {
                        codes_sub += 1;
                    }
                    if DataType::Enum(x).is_subset_of(&DataType::Enum(y)) {
                        real_sub += 1;
                    }
                }
                println!("enum pairs {} codes-subset {} is_subset_of {}", n, codes_sub, real_sub);
            }
            println!("enum: A<=B {} member(v,A)={:?} premise(v,A)={:?} member(v,B)={:?}", ta.is_subset_of(&tb), oracle::member::member(&v, &ta), oracle::member::member_premise(&v, &ta), oracle::member::member(&v, &tb));
            return;
        }
        "DEBUGDET" => {
            debug_det(&p);
            return;
        }
        "C01" => mon::c01::run_monitor(&p),
        "C03" => mon::c03::run(&p),
        "C04" => mon::c04::run(&p),
        "C05" => mon::c05::run(&p),
        "C06" => mon::c06::run(&p),
        "C07" => mon::c07::run(&p, mon::c07::Which::C07),
        "C14" => mon::c07::run(&p, mon::c07::Which::C14),
        "C08" => mon::c08::run(&p),
        "C09" => mon::c09::run(&p),
        "C10" => mon::c10::run(&p),
        "C11" => mon::c11::run(&p),
        "C12" => mon::c12::run(&p),
        "C13" => mon::c13::run(&p, mon::c13::Which::C13),
        "C02" => mon::c13::run(&p, mon::c13::Which::C02),
        "C15" => mon::c15::run(&p),
        "C16" => mon::c16::run(&p),
        "C17" => mon::c17::run(&p),
        "C18" => mon::c18::run(&p),
        _ => {
            eprintln!("unknown property {}", prop);
            std::process::exit(2)
        }
    };
    let mut j = report.to_json();
    j["wall_s"] = serde_json::json!(t0.elapsed().as_secs_f64());
    j["seed"] = serde_json::json!(p.seed);
    j["shard"] = serde_json::json!(p.shard);
    let text = serde_json::to_string(&j).unwrap();
    match out {
        Some(path) => std::fs::write(path, text).expect("write report"),
        None => println!("{}", text),
    }
}

/// debug helper: `qv DEBUGSQL --sql=...` compiles against a tiny catalogue and prints rendering + staged rows
pub fn debug_sql(p: &util::Params) {
    use gen::catalog::*;
    let mut r = p.rng(p.num("case", 0));
    let cat = gen_generic(&mut r, 6);
    let sql = p.extra.get("sql").cloned().unwrap_or_default();
    println!("{}", serde_json::to_string_pretty(&cat.to_json(8)).unwrap());
    match mon::execq::compile(&sql, &cat.relations()) {
        mon::execq::Compiled::Ok(rel) => {
            println!("{}", rel);
            if let qrlew::Relation::Map(m) = &rel {
                use qrlew::data_type::DataTyped;
                for e in m.projection() {
                    println!("culprits of {} = {:?}", e, mon::execq::culprits(e, &m.input().data_type()));
                }
            }
            let rendered = mon::execq::render(&rel).unwrap();
            println!("{}", rendered);
            let db = exec::sqlite::Db::new(true, exec::sqlite::RandomMode::Counter);
            cat.load(&db).unwrap();
            match mon::execq::run_staged(&db, &rendered) {
                Ok(s) => {
                    for (n, rows) in s.stages.iter() {
                        println!("{} -> {}", n, rows.to_json(5));
                    }
                    println!("result {}", s.result.to_json(10));
                }
                Err(e) => println!("exec error {}", e),
            }
        }
        mon::execq::Compiled::Err(e) => println!("compile error {}", e),
        mon::execq::Compiled::Panic(p) => println!("panic {} at {}", p.message, p.location),
    }
}

/// debug helper: compile one query many times (on fresh threads too) and print the distinct schemas
pub fn debug_det(p: &util::Params) {
    use qrlew::builder::{Ready, With};
    use qrlew::data_type::DataType;
    use qrlew::relation::{Relation, Variant as _};
    use std::sync::Arc;
    let schema: qrlew::relation::Schema = vec![
        ("id", DataType::integer_interval(1, 200)),
        ("a", DataType::boolean()),
        ("b", DataType::integer_interval(23, 34)),
        ("c", DataType::integer_interval(19, 54)),
    ]
    .into_iter()
    .collect();
    let t: Relation = Relation::table().name("t0").schema(schema).size(37).build();
    let relations: qrlew::hierarchy::Hierarchy<Arc<Relation>> = vec![(vec!["t0".to_string()], Arc::new(t))].into_iter().collect();
    let sql = p.extra.get("sql").cloned().unwrap_or_default();
    let mut seen = std::collections::BTreeMap::new();
    if sql.is_empty() {
        use qrlew::data_type::function::Function as _;
        let fl: DataType = DataType::float_values((23..=34).map(|x| x as f64).collect::<Vec<_>>());
        let set = DataType::structured_from_data_types(&[fl, DataType::integer_interval(23, 34)]);
        for _ in 0..p.num("n", 200) {
            let set = set.clone();
            let s = std::thread::spawn(move || {
                let a = qrlew::data_type::function::greatest().super_image(&set).map(|d| d.to_string()).unwrap_or_else(|e| e.to_string());
                let dom = DataType::structured_from_data_types(&[DataType::integer(), DataType::integer()]);
                let b = qrlew::data_type::Variant::into_data_type(&set, &dom).map(|d| d.to_string()).unwrap_or_else(|e| e.to_string());
                format!("{} // {}", a, b)
            }).join().unwrap();
            *seen.entry(s).or_insert(0) += 1;
        }
        for (k, v) in seen {
            println!("{}x {}", v, k);
        }
        let mut seen = std::collections::BTreeMap::new();
        use qrlew::expr::Expr;
        let e = Expr::greatest(Expr::abs(Expr::col("b")), Expr::col("b"));
        let input = DataType::structured([("b", DataType::integer_interval(23, 34))]);
        for _ in 0..p.num("n", 200) {
            let a = e.super_image(&input).map(|d| d.to_string()).unwrap_or_else(|e| e.to_string());
            let ab = Expr::abs(Expr::col("b")).super_image(&input).unwrap();
            let g = qrlew::expr::function::Function::Greatest.super_image(&[ab.clone(), DataType::integer_interval(23, 34)]).map(|d| d.to_string()).unwrap_or_else(|e| e.to_string());
            *seen.entry(format!("{} // abs {} // g {}", a, ab, g)).or_insert(0) += 1;
        }
        for (k, v) in seen {
            println!("{}x {}", v, k);
        }
        return;
    }
    for _ in 0..p.num("n", 200) {
        let relations = relations.clone();
        let sql = sql.clone();
        let s = std::thread::spawn(move || match mon::execq::compile(&sql, &relations) {
            mon::execq::Compiled::Ok(rel) => format!("{} :: {}", rel.name(), rel.schema()),
            mon::execq::Compiled::Err(e) => format!("error {}", e),
            mon::execq::Compiled::Panic(p) => format!("panic {}", p.message),
        })
        .join()
        .unwrap();
        *seen.entry(s).or_insert(0) += 1;
    }
    for (k, v) in seen {
        println!("{}x {}", v, k);
    }
}
