//! Catalogues (table definitions with declared types, sizes, constraints) and conforming database
//! instances, for the monitors that compile and execute SQL.
use crate::exec::sqlite::Db;
use crate::gen::types::*;
use crate::util::Rng;
use qrlew::builder::{Ready, With};
use qrlew::data_type::value::Value;
use qrlew::data_type::{self as dt, DataType};
use qrlew::hierarchy::Hierarchy;
use qrlew::privacy_unit_tracking::PrivacyUnit;
use qrlew::relation::{Constraint, Field, Relation, Schema, Table};
use serde_json::json;
use std::collections::HashSet;
use std::sync::Arc;

#[derive(Clone, Debug)]
pub struct ColDef {
    pub name: String,
    pub ty: DataType,
    pub constraint: Option<Constraint>,
    /// column whose values must reference `(table, column)` (foreign-key shaped)
    pub references: Option<(String, String)>,
}

impl ColDef {
    pub fn new(name: &str, ty: DataType) -> ColDef {
        ColDef { name: name.to_string(), ty, constraint: None, references: None }
    }
    pub fn unique(mut self) -> ColDef {
        self.constraint = Some(Constraint::Unique);
        self
    }
    pub fn pk(mut self) -> ColDef {
        self.constraint = Some(Constraint::PrimaryKey);
        self
    }
    /// declared FOREIGN KEY (says nothing about uniqueness)
    pub fn fk(mut self) -> ColDef {
        self.constraint = Some(Constraint::ForeignKey);
        self
    }
    pub fn refs(mut self, t: &str, c: &str) -> ColDef {
        self.references = Some((t.to_string(), c.to_string()));
        self
    }
    pub fn inner(&self) -> &DataType {
        match &self.ty {
            DataType::Optional(o) => o.data_type(),
            t => t,
        }
    }
    pub fn optional(&self) -> bool {
        matches!(self.ty, DataType::Optional(_))
    }
    pub fn sql_type(&self) -> &'static str {
        match self.inner() {
            DataType::Integer(_) | DataType::Boolean(_) => "INTEGER",
            DataType::Float(_) => "REAL",
            _ => "TEXT",
        }
    }
    pub fn is_numeric(&self) -> bool {
        matches!(self.inner(), DataType::Integer(_) | DataType::Float(_))
    }
    pub fn is_int(&self) -> bool {
        matches!(self.inner(), DataType::Integer(_))
    }
    pub fn is_float(&self) -> bool {
        matches!(self.inner(), DataType::Float(_))
    }
    pub fn is_text(&self) -> bool {
        matches!(self.inner(), DataType::Text(_))
    }
    pub fn is_bool(&self) -> bool {
        matches!(self.inner(), DataType::Boolean(_))
    }
    /// finite declared value set ("public" values)
    pub fn finite_values(&self) -> bool {
        match self.inner() {
            DataType::Integer(i) => i.iter().all(|[a, b]| a == b) && !i.is_empty(),
            DataType::Float(i) => i.iter().all(|[a, b]| a == b) && !i.is_empty(),
            DataType::Text(i) => i.iter().all(|[a, b]| a == b) && !i.is_empty(),
            DataType::Boolean(_) => true,
            _ => false,
        }
    }
}

#[derive(Clone, Debug)]
pub struct TableDef {
    pub name: String,
    pub cols: Vec<ColDef>,
    /// declared size interval
    pub size: (i64, i64),
    pub rows: Vec<Vec<Value>>,
}

impl TableDef {
    pub fn col(&self, name: &str) -> Option<usize> {
        self.cols.iter().position(|c| c.name == name)
    }
    pub fn relation(&self) -> Relation {
        self.relation_named("")
    }
    pub fn relation_named(&self, prefix: &str) -> Relation {
        let schema: Schema = self
            .cols
            .iter()
            .map(|c| Field::new(c.name.clone(), c.ty.clone(), c.constraint.clone()))
            .collect();
        Relation::Table(Table::new(
            format!("{}{}", prefix, self.name),
            vec![self.name.clone()].into(),
            schema,
            dt::Integer::from_interval(self.size.0, self.size.1),
        ))
    }
    pub fn to_json(&self, max_rows: usize) -> serde_json::Value {
        json!({
            "name": self.name,
            "size": [self.size.0, self.size.1],
            "columns": self.cols.iter().map(|c| json!({"name": c.name, "type": c.ty.to_string(),
                "constraint": c.constraint.as_ref().map(|k| k.to_string())})).collect::<Vec<_>>(),
            "rows": self.rows.iter().take(max_rows).map(|r| r.iter().map(|v| v.to_string()).collect::<Vec<_>>()).collect::<Vec<_>>(),
            "n_rows": self.rows.len(),
        })
    }
}

#[derive(Clone, Debug)]
pub struct Catalog {
    pub tables: Vec<TableDef>,
    /// prefix of the Relation names of the tables: with a non-empty prefix the name of a table
    /// relation differs from its path / key in the hierarchy (and from its key in the privacy unit)
    pub rel_prefix: String,
}

impl Catalog {
    pub fn table(&self, name: &str) -> Option<&TableDef> {
        self.tables.iter().find(|t| t.name == name)
    }
    pub fn table_mut(&mut self, name: &str) -> Option<&mut TableDef> {
        self.tables.iter_mut().find(|t| t.name == name)
    }
    pub fn relations(&self) -> Hierarchy<Arc<Relation>> {
        self.tables
            .iter()
            .map(|t| (vec![t.name.clone()], Arc::new(t.relation_named(&self.rel_prefix))))
            .collect()
    }
    pub fn load(&self, db: &Db) -> Result<(), String> {
        for t in self.tables.iter() {
            let cols: Vec<(String, &'static str)> = t.cols.iter().map(|c| (c.name.clone(), c.sql_type())).collect();
            db.load_table(&t.name, &cols, &t.rows)?;
        }
        Ok(())
    }
    pub fn to_json(&self, max_rows: usize) -> serde_json::Value {
        json!(self.tables.iter().map(|t| t.to_json(max_rows)).collect::<Vec<_>>())
    }
}

// ------------------------------------------------------------------ column type menu

fn opt(r: &mut Rng, t: DataType, p: u64) -> DataType {
    if r.chance(p, 100) {
        DataType::optional(t)
    } else {
        t
    }
}

pub fn int_col_type(r: &mut Rng) -> DataType {
    let a = r.range(-30, 30);
    DataType::Integer(match r.below(7) {
        0 => dt::Integer::from_interval(a, a + r.range(0, 60)),
        1 => dt::Integer::from_interval(0, r.range(1, 100)),
        2 => dt::Integer::from_values([a, a + r.range(1, 4), a + r.range(5, 20)]),
        3 => dt::Integer::from_interval(a, a + 3).union_interval(a + 10, a + 15),
        4 => dt::Integer::from_interval(-r.range(1, 50), r.range(1, 50)),
        5 => dt::Integer::from_value(a),
        _ => dt::Integer::from_interval(1, 1000),
    })
}

pub fn float_col_type(r: &mut Rng) -> DataType {
    let a = r.range(-40, 40) as f64 / 2.0;
    DataType::Float(match r.below(6) {
        0 => dt::Float::from_interval(a, a + r.range(0, 100) as f64 / 2.0),
        1 => dt::Float::from_interval(0.0, r.range(1, 1000) as f64),
        2 => dt::Float::from_values([a, a + 0.5, a + 10.25]),
        3 => dt::Float::from_interval(-(r.range(1, 100) as f64), r.range(1, 100) as f64),
        4 => dt::Float::from_interval(a, a + 1.5).union_interval(a + 5.0, a + 9.0),
        _ => dt::Float::from_interval(-1000.0, 1000.0),
    })
}

// ASCII only: UPPER/LOWER of non-ASCII letters differ between SQLite and PostgreSQL (not portable)
const WORDS: &[&str] = &["a", "b", "c", "ab", "x y", "Z", "new", "paid", "it's", "q\"t", "0", "NULL", "north", "south"];

pub fn text_col_type(r: &mut Rng) -> DataType {
    match r.below(4) {
        0 | 1 | 2 => {
            let n = 1 + r.usize(4);
            let mut w = WORDS.to_vec();
            r.shuffle(&mut w);
            DataType::text_values(w.into_iter().take(n).map(|s| s.to_string()).collect::<Vec<_>>())
        }
        _ => DataType::text_interval("a".to_string(), "zzzz".to_string()),
    }
}

pub fn any_col_type(r: &mut Rng) -> DataType {
    match r.below(10) {
        0..=3 => int_col_type(r),
        4..=6 => float_col_type(r),
        7..=8 => text_col_type(r),
        _ => DataType::Boolean(gen_boolean(r)),
    }
}

/// Generate `n` rows conforming to the columns (unique columns honoured, references mostly valid)
pub fn gen_rows(r: &mut Rng, cat: &Catalog, cols: &[ColDef], n: usize) -> Vec<Vec<Value>> {
    let mut rows: Vec<Vec<Value>> = vec![];
    let mut seen: Vec<HashSet<String>> = cols.iter().map(|_| HashSet::new()).collect();
    let mut attempts = 0;
    while rows.len() < n && attempts < n * 20 + 50 {
        attempts += 1;
        let mut row = vec![];
        let mut ok = true;
        for (ci, c) in cols.iter().enumerate() {
            let v = if let Some((t, col)) = &c.references {
                // pick an existing referenced value most of the time
                let target = cat.table(t);
                let existing: Vec<&Value> = target
                    .and_then(|t| t.col(col).map(|i| t.rows.iter().map(|r| &r[i]).collect()))
                    .unwrap_or_default();
                if !existing.is_empty() && r.chance(9, 10) {
                    let v = (*r.pick(&existing)).clone();
                    // wrap to the column's optionality
                    strip_some(&v)
                } else {
                    gen_value_in(r, c.inner())
                        .unwrap_or_else(Value::none)
                }
            } else {
                match gen_value_in(r, &c.ty) {
                    Some(v) => v,
                    None => {
                        ok = false;
                        break;
                    }
                }
            };
            // normalise optional representation: NULL = none, others bare
            let v = strip_some(&v);
            if matches!(c.constraint, Some(Constraint::Unique) | Some(Constraint::PrimaryKey)) {
                if is_none(&v) {
                    if matches!(c.constraint, Some(Constraint::PrimaryKey)) {
                        ok = false;
                        break;
                    }
                } else if !seen[ci].insert(unique_key(&v)) {
                    ok = false;
                    break;
                }
            }
            row.push(v);
        }
        if ok && row.len() == cols.len() {
            rows.push(row);
        } else if !ok {
            // roll back uniqueness marks of this failed row: (they were only inserted on success path up to failure)
            for (ci, v) in row.iter().enumerate() {
                if matches!(cols[ci].constraint, Some(Constraint::Unique) | Some(Constraint::PrimaryKey)) {
                    seen[ci].remove(&unique_key(v));
                }
            }
        }
    }
    rows
}

/// Key under which two values are "the same" for a uniqueness constraint (0.0 = -0.0 = 0)
pub fn unique_key(v: &Value) -> String {
    match v {
        Value::Float(f) => {
            if f.fract() == 0.0 && f.abs() < 9.0e15 {
                format!("{}", **f as i64)
            } else {
                format!("{:?}", **f)
            }
        }
        Value::Integer(i) => format!("{}", **i),
        Value::Boolean(b) => format!("{}", if **b { 1 } else { 0 }),
        Value::Optional(o) => match o.as_deref() {
            Some(x) => unique_key(x),
            None => "∅".into(),
        },
        v => v.to_string(),
    }
}

pub fn is_none(v: &Value) -> bool {
    matches!(v, Value::Optional(o) if o.is_none()) || matches!(v, Value::Unit(_))
}

pub fn strip_some(v: &Value) -> Value {
    match v {
        Value::Optional(o) => match o.as_deref() {
            Some(x) => strip_some(x),
            None => Value::none(),
        },
        v => v.clone(),
    }
}

// ------------------------------------------------------------------ generic catalogue

/// 2..4 tables t0.. with an id column, a foreign-key shaped column to the previous table and typed columns
pub fn gen_generic(r: &mut Rng, max_rows: usize) -> Catalog {
    let nt = 2 + r.usize(3);
    let mut cat = Catalog { tables: vec![], rel_prefix: String::new() };
    for ti in 0..nt {
        let name = format!("t{}", ti);
        let mut cols: Vec<ColDef> = vec![];
        let id_ty = DataType::integer_interval(1, 200);
        let idc = ColDef::new("id", id_ty);
        cols.push(match r.below(3) {
            0 => idc.unique(),
            1 => idc.pk(),
            _ => idc,
        });
        if ti > 0 {
            let prev = format!("t{}", r.usize(ti));
            let c = ColDef::new("ref", opt(r, DataType::integer_interval(1, 200), 15)).refs(&prev, "id");
            cols.push(if r.bool() { c.fk() } else { c });
        }
        let ncols = 2 + r.usize(4);
        let names = ["a", "b", "c", "d", "e", "f"];
        for k in 0..ncols {
            let ty = any_col_type(r);
            let ty = opt(r, ty, 25);
            let mut c = ColDef::new(names[k], ty);
            if r.chance(1, 12) && !c.optional() {
                c = c.unique();
            }
            cols.push(c);
        }
        // common column names across tables make USING / NATURAL joins possible
        let nrows = match r.below(6) {
            0 => 0,
            1 => 1,
            _ => 1 + r.usize(max_rows),
        };
        let mut t = TableDef { name, cols, size: (0, 0), rows: vec![] };
        t.rows = gen_rows(r, &cat, &t.cols, nrows);
        let n = t.rows.len() as i64;
        t.size = match r.below(4) {
            0 => (n, n),
            1 => (0, n),
            2 => (n, n + r.range(0, 20)),
            _ => (0, n + r.range(0, 50)),
        };
        cat.tables.push(t);
    }
    cat
}

// ------------------------------------------------------------------ the DP world

#[derive(Clone, Debug)]
pub struct DpWorld {
    pub cat: Catalog,
    pub hash_pu: bool,
    /// every protected table has a per-row weight column `w` declared in the privacy unit
    pub weighted: bool,
    /// tables without privacy unit (public)
    pub public: Vec<String>,
    pub row_privacy: Vec<String>,
}

pub const CITIES: &[&str] = &["Paris", "Lyon", "Nice", "Lille"];
pub const STATUS: &[&str] = &["new", "paid", "void"];
pub const SKUS: &[&str] = &["s1", "s2", "s3", "s4", "s5"];

pub struct DpWorldOptions {
    pub n_users: usize,
    pub max_orders_per_user: usize,
    pub max_items_per_order: usize,
    pub n_events: usize,
    /// generate some foreign keys pointing nowhere
    pub dangling: bool,
    pub nullable: bool,
}

impl DpWorld {
    pub fn privacy_unit(&self) -> PrivacyUnit {
        let paths: Vec<(&str, Vec<(&str, &str, &str)>, &str)> = vec![
            ("users", vec![], "id"),
            ("orders", vec![("user_id", "users", "id")], "id"),
            ("items", vec![("order_id", "orders", "id"), ("user_id", "users", "id")], "id"),
            ("events", vec![], PrivacyUnit::privacy_unit_row()),
            // a direct, NON-unique privacy-unit column: several rows (and weights) per unit
            ("visits", vec![], "uid"),
        ];
        if self.weighted {
            let weighted: Vec<(&str, Vec<(&str, &str, &str)>, &str, &str)> = paths.into_iter().map(|(t, p, id)| (t, p, id, "w")).collect();
            return PrivacyUnit::from((weighted, self.hash_pu));
        }
        PrivacyUnit::from((paths, self.hash_pu))
    }

    /// Independent attribution: the privacy unit (users.id) owning each row of a protected table.
    /// `None` = the row is attached to no unit (dangling reference): the tracked relation drops it.
    pub fn owner(&self, table: &str, row: &[Value]) -> Option<String> {
        let t = self.cat.table(table)?;
        match table {
            "users" => Some(row[t.col("id")?].to_string()),
            "orders" => {
                let uid = &row[t.col("user_id")?];
                let users = self.cat.table("users")?;
                let idc = users.col("id")?;
                users.rows.iter().find(|u| &u[idc] == uid).map(|u| u[idc].to_string())
            }
            "visits" => Some(row[t.col("uid")?].to_string()),
            "items" => {
                let oid = &row[t.col("order_id")?];
                let orders = self.cat.table("orders")?;
                let oidc = orders.col("id")?;
                let o = orders.rows.iter().find(|o| &o[oidc] == oid)?;
                self.owner("orders", o)
            }
            _ => None,
        }
    }

    pub fn units(&self) -> Vec<String> {
        let users = self.cat.table("users").unwrap();
        let idc = users.col("id").unwrap();
        let mut units: Vec<String> = users.rows.iter().map(|u| u[idc].to_string()).collect();
        if let Some(v) = self.cat.table("visits") {
            if let Some(ui) = v.col("uid") {
                for row in v.rows.iter() {
                    let u = row[ui].to_string();
                    if !units.contains(&u) {
                        units.push(u);
                    }
                }
            }
        }
        units
    }

    /// The database with every protected row not owned by `unit` deleted (public tables untouched)
    pub fn restricted_to(&self, unit: &str) -> DpWorld {
        let mut w = self.clone();
        for name in ["users", "orders", "items", "visits"] {
            let keep: Vec<Vec<Value>> = self
                .cat
                .table(name)
                .unwrap()
                .rows
                .iter()
                .filter(|row| self.owner(name, row).as_deref() == Some(unit))
                .cloned()
                .collect();
            w.cat.table_mut(name).unwrap().rows = keep;
        }
        w.cat.table_mut("events").unwrap().rows = vec![];
        w
    }

    /// The neighbouring database: all protected rows owned by `unit` removed
    pub fn without(&self, unit: &str) -> DpWorld {
        let mut w = self.clone();
        for name in ["users", "orders", "items", "visits"] {
            let keep: Vec<Vec<Value>> = self
                .cat
                .table(name)
                .unwrap()
                .rows
                .iter()
                .filter(|row| self.owner(name, row).as_deref() != Some(unit))
                .cloned()
                .collect();
            w.cat.table_mut(name).unwrap().rows = keep;
        }
        w
    }
}

/// users / orders / items (privacy unit = users.id along foreign keys), shops (public), events (row privacy).
/// Declared sizes are wide intervals so that neighbouring instances also conform.
pub fn gen_dp_world(r: &mut Rng, o: &DpWorldOptions) -> DpWorld {
    let nullable = |r: &mut Rng, t: DataType| if o.nullable && r.chance(1, 3) { DataType::optional(t) } else { t };
    let amount_hi = *r.pick(&[10.0, 100.0, 500.0]);
    let amount_lo = *r.pick(&[0.0, -50.0, -100.0]);
    let qty_hi = *r.pick(&[5i64, 10, 100]);
    let ncity = 2 + r.usize(3);
    let cities: Vec<String> = CITIES.iter().take(ncity).map(|s| s.to_string()).collect();
    let private_city = r.chance(1, 3); // city declared as free text -> not a public key
    let users_cols = vec![
        ColDef::new("id", DataType::integer_interval(1, 1000)).unique(),
        ColDef::new("age", nullable(r, DataType::integer_interval(18, 90))),
        ColDef::new(
            "city",
            if private_city { DataType::text_interval("A".to_string(), "z".to_string()) } else { DataType::text_values(cities.clone()) },
        ),
        ColDef::new("income", {
            let hi = *r.pick(&[1000.0, 50000.0]);
            nullable(r, DataType::float_interval(0.0, hi))
        }),
        ColDef::new("tier", DataType::integer_values([1, 2, 3])),
    ];
    let orders_cols = vec![
        ColDef::new("id", DataType::integer_interval(1, 100000)).unique(),
        ColDef::new("user_id", DataType::integer_interval(1, 1000)).refs("users", "id"),
        ColDef::new("amount", nullable(r, DataType::float_interval(amount_lo, amount_hi))),
        ColDef::new("qty", DataType::integer_interval(0, qty_hi)),
        // an integer range whose largest magnitude is on the negative side
        ColDef::new("adj", DataType::integer_interval(-20, 5)),
        ColDef::new("status", DataType::text_values(STATUS.iter().map(|s| s.to_string()).collect::<Vec<_>>())),
    ];
    let items_cols = vec![
        ColDef::new("order_id", DataType::integer_interval(1, 100000)).refs("orders", "id"),
        ColDef::new("price", {
            let hi = *r.pick(&[20.0, 200.0]);
            nullable(r, DataType::float_interval(0.0, hi))
        }),
        ColDef::new("sku", DataType::text_values(SKUS.iter().map(|s| s.to_string()).collect::<Vec<_>>())),
    ];
    let shops_cols = vec![
        ColDef::new("city", DataType::text_values(cities.clone())),
        ColDef::new("region", DataType::text_values(["north".to_string(), "south".to_string()])),
        ColDef::new("rate", DataType::float_interval(0.0, 2.0)),
    ];
    let events_cols = vec![
        ColDef::new("k", DataType::text_values(["u".to_string(), "v".to_string(), "w".to_string()])),
        ColDef::new("x", DataType::float_interval(-10.0, 10.0)),
        ColDef::new("y", nullable(r, DataType::integer_interval(0, 20))),
    ];
    let visits_cols = vec![
        ColDef::new("uid", DataType::integer_interval(1, 1000)),
        ColDef::new(
            "city",
            if private_city { DataType::text_interval("A".to_string(), "z".to_string()) } else { DataType::text_values(cities.clone()) },
        ),
        ColDef::new("x", nullable(r, DataType::float_interval(0.0, 50.0))),
    ];
    // one world in three declares a per-row weight (a unit's rows carry different weights)
    let weighted = r.chance(1, 3);
    let (mut users_cols, mut orders_cols, mut items_cols, mut events_cols, mut visits_cols) = (users_cols, orders_cols, items_cols, events_cols, visits_cols);
    if weighted {
        for cols in [&mut users_cols, &mut orders_cols, &mut items_cols, &mut events_cols, &mut visits_cols] {
            cols.push(ColDef::new("w", DataType::float_values([0.5, 1.0, 2.0, 3.0])));
        }
    }
    // in half of the worlds the Relation name of a table differs from its key in the hierarchy
    let mut cat = Catalog { tables: vec![], rel_prefix: if r.bool() { "tb_".to_string() } else { String::new() } };
    // users
    let mut users = TableDef { name: "users".into(), cols: users_cols, size: (0, 10000), rows: vec![] };
    {
        // ids are small consecutive numbers most of the time
        let mut rows = vec![];
        for u in 0..o.n_users {
            let mut row = vec![Value::integer(u as i64 + 1)];
            for c in users.cols.iter().skip(1) {
                let v = if c.name == "city" && private_city {
                    // private keys: a few shared cities and some unique ones
                    if r.chance(2, 3) { Value::text(r.pick(CITIES).to_string()) } else { Value::text(format!("V{}", r.below(50))) }
                } else {
                    strip_some(&gen_value_in(r, &c.ty).unwrap_or_else(Value::none))
                };
                row.push(v);
            }
            rows.push(row);
        }
        users.rows = rows;
    }
    cat.tables.push(users);
    // orders
    let mut orders = TableDef { name: "orders".into(), cols: orders_cols, size: (0, 100000), rows: vec![] };
    {
        let mut rows = vec![];
        let mut oid = 0i64;
        for u in 0..o.n_users {
            let k = match r.below(5) {
                0 => 0,
                1 => o.max_orders_per_user,
                _ => r.usize(o.max_orders_per_user + 1),
            };
            for _ in 0..k {
                oid += 1;
                let mut row = vec![Value::integer(oid), Value::integer(u as i64 + 1)];
                for c in orders.cols.iter().skip(2) {
                    // boundary-heavy amounts
                    row.push(strip_some(&gen_value_in(r, &c.ty).unwrap_or_else(Value::none)));
                }
                rows.push(row);
            }
        }
        if o.dangling && r.bool() {
            oid += 1;
            let mut row = vec![Value::integer(oid), Value::integer(999)];
            for c in orders.cols.iter().skip(2) {
                row.push(strip_some(&gen_value_in(r, &c.ty).unwrap_or_else(Value::none)));
            }
            rows.push(row);
        }
        orders.rows = rows;
    }
    cat.tables.push(orders);
    // items
    let mut items = TableDef { name: "items".into(), cols: items_cols, size: (0, 1000000), rows: vec![] };
    {
        let mut rows = vec![];
        let order_ids: Vec<Value> = cat.table("orders").unwrap().rows.iter().map(|o| o[0].clone()).collect();
        for oid in order_ids.iter() {
            let k = r.usize(o.max_items_per_order + 1);
            for _ in 0..k {
                let mut row = vec![oid.clone()];
                for c in items.cols.iter().skip(1) {
                    row.push(strip_some(&gen_value_in(r, &c.ty).unwrap_or_else(Value::none)));
                }
                rows.push(row);
            }
        }
        items.rows = rows;
    }
    cat.tables.push(items);
    // shops (public)
    let mut shops = TableDef { name: "shops".into(), cols: shops_cols, size: (0, 100), rows: vec![] };
    {
        let mut rows = vec![];
        for c in cities.iter() {
            if r.chance(4, 5) {
                rows.push(vec![
                    Value::text(c.clone()),
                    Value::text(if r.bool() { "north" } else { "south" }),
                    Value::float(r.range(0, 4) as f64 / 2.0),
                ]);
            }
        }
        shops.rows = rows;
    }
    cat.tables.push(shops);
    // events (row privacy)
    let mut events = TableDef { name: "events".into(), cols: events_cols, size: (0, 10000), rows: vec![] };
    events.rows = gen_rows(r, &cat, &events.cols.clone(), o.n_events);
    cat.tables.push(events);
    // one world in three declares tight sizes (just enough room for the neighbouring instances the monitors
    // build: one more user, a few more orders), the others wide ones
    if r.chance(1, 3) {
        for t in cat.tables.iter_mut() {
            if ["users", "orders", "items"].contains(&t.name.as_str()) {
                t.size = (0, t.rows.len() as i64 + if t.name == "users" { 1 } else { 6 });
            }
        }
    }
    // visits: 0..4 rows per user id (and sometimes for an id that has no row in users)
    let mut visits = TableDef { name: "visits".into(), cols: visits_cols, size: (0, 100000), rows: vec![] };
    {
        let mut rows = vec![];
        let n_ids = o.n_users + if r.chance(1, 4) { 1 } else { 0 };
        for u in 0..n_ids {
            let k = match r.below(4) {
                0 => 0,
                1 => 1,
                _ => 1 + r.usize(4),
            };
            for _ in 0..k {
                let mut row = vec![Value::integer(u as i64 + 1)];
                for c in visits.cols.iter().skip(1) {
                    let v = if c.name == "city" && private_city {
                        if r.chance(2, 3) { Value::text(r.pick(CITIES).to_string()) } else { Value::text(format!("V{}", r.below(50))) }
                    } else {
                        strip_some(&gen_value_in(r, &c.ty).unwrap_or_else(Value::none))
                    };
                    row.push(v);
                }
                rows.push(row);
            }
        }
        visits.rows = rows;
    }
    cat.tables.push(visits);
    DpWorld { cat, hash_pu: r.bool(), weighted, public: vec!["shops".into()], row_privacy: vec!["events".into()] }
}
