pub mod catalog;
pub mod sql;
pub mod types;
