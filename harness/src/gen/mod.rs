pub mod catalog;
pub mod dpsql;
pub mod sql;
pub mod types;
