pub mod types;
