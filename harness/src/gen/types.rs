//! Boundary-biased generators of data types and of values inside / around them.
use crate::util::Rng;
use chrono::{Duration, NaiveDate, NaiveDateTime, NaiveTime};
use qrlew::data_type::{self as dt, value, DataType};
use qrlew::data_type::value::Value;
use std::sync::Arc;

pub const INT_SPECIAL: &[i64] = &[
    0,
    1,
    -1,
    2,
    -2,
    3,
    7,
    10,
    -10,
    100,
    127,
    128,
    129,
    -128,
    255,
    1000,
    65535,
    1 << 31,
    -(1 << 31),
    (1 << 53) - 1,
    1 << 53,
    (1 << 53) + 1,
    -(1 << 53) - 1,
    i64::MAX,
    i64::MAX - 1,
    i64::MIN,
    i64::MIN + 1,
];

pub const FLOAT_SPECIAL: &[f64] = &[
    0.0,
    -0.0,
    1.0,
    -1.0,
    0.5,
    -0.5,
    1.5,
    2.0,
    -2.0,
    2.5,
    -2.5,
    3.141592653589793,
    -3.141592653589793,
    6.283185307179586,
    1.5707963267948966,
    10.0,
    -10.0,
    100.0,
    1e-9,
    -1e-9,
    1e9,
    -1e9,
    9007199254740992.0,
    9007199254740993.0,
    -9007199254740992.0,
    1e300,
    -1e300,
    f64::MAX,
    f64::MIN,
    f64::MIN_POSITIVE,
    5e-324,
    f64::EPSILON,
    9.223372036854775807e18,
    -9.223372036854775808e18,
];

pub const TEXT_SPECIAL: &[&str] = &[
    "", "a", "b", "ab", "abc", "A", "Z", "z", "0", "1", "10", "-1", "1.5", "true", "false", " ",
    "  x ", "é", "ß", "'", "\"", "a'b", "a\"b", "\\", "%", "_", "NULL", "hello world", "Hello",
    "2020-01-01", "12:30:00", "1e3", "zzzz",
];

pub fn int_any(r: &mut Rng) -> i64 {
    match r.below(10) {
        0..=3 => *r.pick(INT_SPECIAL),
        4..=6 => r.range(-20, 20),
        7 => r.range(-100000, 100000),
        8 => r.next() as i64,
        _ => {
            let s = *r.pick(INT_SPECIAL);
            s.saturating_add(r.range(-2, 2))
        }
    }
}

pub fn float_any(r: &mut Rng) -> f64 {
    match r.below(10) {
        0..=3 => *r.pick(FLOAT_SPECIAL),
        4..=5 => r.range(-20, 20) as f64,
        6 => (r.f01() - 0.5) * 20.0,
        7 => (r.f01() - 0.5) * 2e6,
        8 => {
            let f = f64::from_bits(r.next());
            if f.is_finite() {
                f
            } else {
                1.0
            }
        }
        _ => {
            // neighbour of a special value
            let s = *r.pick(FLOAT_SPECIAL);
            let b = s.to_bits();
            let n = if r.bool() { b.wrapping_add(1) } else { b.wrapping_sub(1) };
            let f = f64::from_bits(n);
            if f.is_finite() {
                f
            } else {
                s
            }
        }
    }
}

pub fn text_any(r: &mut Rng) -> String {
    match r.below(4) {
        0..=1 => r.pick(TEXT_SPECIAL).to_string(),
        2 => {
            let n = r.usize(6);
            (0..n)
                .map(|_| *r.pick(&['a', 'b', 'c', 'A', 'z', '0', '1', ' ', '\'', 'é']))
                .collect()
        }
        _ => {
            let mut s = r.pick(TEXT_SPECIAL).to_string();
            s.push(*r.pick(&['a', 'b', '\u{1}', 'z']));
            s
        }
    }
}

/// Dates stay within years 1..=9999 (what SQL engines accept); chrono's own extremes
/// (year ±262143) are outside the domain of every engine and are not generated.
pub fn date_any(r: &mut Rng) -> NaiveDate {
    match r.below(6) {
        0 => NaiveDate::from_ymd_opt(1, 1, 1).unwrap(),
        1 => NaiveDate::from_ymd_opt(9999, 12, 31).unwrap(),
        2 => NaiveDate::from_ymd_opt(1970, 1, 1).unwrap(),
        3 => NaiveDate::from_ymd_opt(2000, 2, 29).unwrap(),
        _ => NaiveDate::from_num_days_from_ce_opt(r.range(700000, 740000) as i32).unwrap(),
    }
}

pub fn time_any(r: &mut Rng) -> NaiveTime {
    match r.below(5) {
        0 => NaiveTime::from_hms_opt(0, 0, 0).unwrap(),
        1 => NaiveTime::from_hms_opt(23, 59, 59).unwrap(),
        2 => NaiveTime::from_hms_opt(12, 0, 0).unwrap(),
        _ => NaiveTime::from_num_seconds_from_midnight_opt(r.below(86400) as u32, 0).unwrap(),
    }
}

pub fn datetime_any(r: &mut Rng) -> NaiveDateTime {
    match r.below(6) {
        0 => NaiveDate::from_ymd_opt(1, 1, 1).unwrap().and_hms_opt(0, 0, 0).unwrap(),
        1 => NaiveDate::from_ymd_opt(9999, 12, 31).unwrap().and_hms_opt(23, 59, 59).unwrap(),
        2 => date_any(r).and_hms_opt(23, 59, 59).unwrap(),
        _ => date_any(r).and_time(time_any(r)),
    }
}

pub fn duration_any(r: &mut Rng) -> Duration {
    match r.below(6) {
        0 => Duration::zero(),
        1 => Duration::seconds(1),
        2 => Duration::seconds(-1),
        3 => Duration::days(r.range(-1000, 1000)),
        4 => Duration::seconds(r.range(-100000, 100000)),
        _ => Duration::milliseconds(r.range(-10_000_000, 10_000_000)),
    }
}

/// A generic interval-set builder from a point generator
fn gen_intervals<B: dt::intervals::Bound>(
    r: &mut Rng,
    point: &mut dyn FnMut(&mut Rng) -> B,
    allow_big: bool,
) -> dt::intervals::Intervals<B> {
    use dt::intervals::Intervals;
    let ordered = |a: B, b: B| if a <= b { (a, b) } else { (b, a) };
    match r.below(12) {
        0 => Intervals::from_value(point(r)),
        1 | 2 => {
            let n = 1 + r.usize(5);
            let vs: Vec<B> = (0..n).map(|_| point(r)).collect();
            Intervals::from_values(vs)
        }
        3 | 4 | 5 => {
            let (a, b) = ordered(point(r), point(r));
            Intervals::from_interval(a, b)
        }
        6 | 7 => {
            let n = 2 + r.usize(4);
            let mut out = Intervals::empty();
            for _ in 0..n {
                let (a, b) = ordered(point(r), point(r));
                out = out.union_interval(a, b);
            }
            out
        }
        8 => {
            let p = point(r);
            if p <= B::max() {
                Intervals::from_min(p)
            } else {
                Intervals::from_value(p)
            }
        }
        9 => {
            let p = point(r);
            if p >= B::min() {
                Intervals::from_max(p)
            } else {
                // e.g. the empty string, which is below the library's minimal text "\u{0}"
                Intervals::from_value(p)
            }
        }
        10 => Intervals::full(),
        _ => {
            if allow_big {
                // many pieces: approach and cross the capacity
                let n = 100 + r.usize(60);
                let mut out = Intervals::empty();
                for _ in 0..n {
                    let (a, b) = if r.bool() {
                        let p = point(r);
                        (p.clone(), p)
                    } else {
                        ordered(point(r), point(r))
                    };
                    out = out.union_interval(a, b);
                }
                out
            } else {
                let (a, b) = ordered(point(r), point(r));
                Intervals::from_interval(a, b)
            }
        }
    }
}

pub fn gen_integer(r: &mut Rng) -> dt::Integer {
    // a mix of narrow and wide point generators so that "many pieces" really has many pieces
    let wide = r.chance(1, 3);
    gen_intervals(
        r,
        &mut |r| if wide { r.range(-100000, 100000) } else { int_any(r) },
        true,
    )
}
pub fn gen_float(r: &mut Rng) -> dt::Float {
    let wide = r.chance(1, 3);
    gen_intervals(
        r,
        &mut |r| if wide { (r.f01() - 0.5) * 1e4 } else { float_any(r) },
        true,
    )
}
pub fn gen_text(r: &mut Rng) -> dt::Text {
    gen_intervals(r, &mut |r| text_any(r), false)
}
pub fn gen_boolean(r: &mut Rng) -> dt::Boolean {
    match r.below(4) {
        0 => dt::Boolean::from_value(true),
        1 => dt::Boolean::from_value(false),
        _ => dt::Boolean::full(),
    }
}
pub fn gen_date(r: &mut Rng) -> dt::Date {
    gen_intervals(r, &mut |r| date_any(r), false)
}
pub fn gen_time(r: &mut Rng) -> dt::Time {
    gen_intervals(r, &mut |r| time_any(r), false)
}
pub fn gen_datetime(r: &mut Rng) -> dt::DateTime {
    gen_intervals(r, &mut |r| datetime_any(r), false)
}
pub fn gen_duration(r: &mut Rng) -> dt::Duration {
    gen_intervals(r, &mut |r| duration_any(r), false)
}

pub const ENUM_NAMES: &[&str] = &["red", "green", "blue", "x", "y"];

pub fn gen_enum(r: &mut Rng) -> dt::Enum {
    let n = 1 + r.usize(4);
    let mut names: Vec<&str> = ENUM_NAMES.to_vec();
    r.shuffle(&mut names);
    let base = r.range(-1, 3);
    names
        .into_iter()
        .take(n)
        .enumerate()
        .map(|(i, s)| (s, base + i as i64))
        .collect()
}

pub fn gen_primitive(r: &mut Rng) -> DataType {
    match r.below(24) {
        0..=4 => DataType::Integer(gen_integer(r)),
        5..=9 => DataType::Float(gen_float(r)),
        10..=12 => DataType::Text(gen_text(r)),
        13..=14 => DataType::Boolean(gen_boolean(r)),
        15 => DataType::Date(gen_date(r)),
        16 => DataType::Time(gen_time(r)),
        17 => DataType::DateTime(gen_datetime(r)),
        18 => DataType::Duration(gen_duration(r)),
        19 => DataType::Enum(gen_enum(r)),
        20 => DataType::bytes(),
        21 => DataType::id(),
        22 => DataType::unit(),
        _ => {
            if r.bool() {
                DataType::Any
            } else {
                DataType::Null
            }
        }
    }
}

pub const FIELD_NAMES: &[&str] = &["a", "b", "c", "d"];

pub fn gen_datatype(r: &mut Rng, depth: u32) -> DataType {
    if depth == 0 || r.chance(3, 5) {
        return gen_primitive(r);
    }
    match r.below(8) {
        0 | 1 => DataType::optional(gen_datatype(r, depth - 1)),
        2 | 3 => {
            let n = r.usize(4);
            let mut names = FIELD_NAMES.to_vec();
            r.shuffle(&mut names);
            DataType::Struct(dt::Struct::new(
                names
                    .into_iter()
                    .take(n)
                    .map(|s| (s.to_string(), Arc::new(gen_datatype(r, depth - 1))))
                    .collect(),
            ))
        }
        4 => {
            let n = 1 + r.usize(3);
            let mut names = FIELD_NAMES.to_vec();
            r.shuffle(&mut names);
            DataType::Union(dt::Union::new(
                names
                    .into_iter()
                    .take(n)
                    .map(|s| (s.to_string(), Arc::new(gen_datatype(r, depth - 1))))
                    .collect(),
            ))
        }
        5 => {
            let lo = r.usize(3);
            let hi = lo + r.usize(3);
            DataType::list(gen_datatype(r, depth - 1), lo, hi)
        }
        6 => {
            let lo = r.usize(3);
            let hi = lo + r.usize(3);
            DataType::set(gen_datatype(r, depth - 1), lo, hi)
        }
        _ => {
            let shape: Vec<usize> = (0..1 + r.usize(2)).map(|_| 1 + r.usize(2)).collect();
            DataType::array(gen_datatype(r, depth - 1), shape)
        }
    }
}

// ------------------------------------------------------------------ values inside a type

fn pick_in<B: dt::intervals::Bound>(
    r: &mut Rng,
    iv: &dt::intervals::Intervals<B>,
    interior: &mut dyn FnMut(&mut Rng, &B, &B) -> B,
) -> Option<B> {
    if iv.is_empty() {
        return None;
    }
    let [a, b] = &iv[r.usize(iv.len())];
    Some(match r.below(5) {
        0 | 1 => a.clone(),
        2 | 3 => b.clone(),
        _ => {
            let v = interior(r, a, b);
            if &v >= a && &v <= b {
                v
            } else {
                a.clone()
            }
        }
    })
}

pub fn int_between(r: &mut Rng, a: i64, b: i64) -> i64 {
    match r.below(6) {
        0 => a.saturating_add(1).min(b),
        1 => b.saturating_sub(1).max(a),
        2 => ((a as i128 + b as i128) / 2) as i64,
        3 => {
            // special values that fall inside
            let c: Vec<i64> = INT_SPECIAL
                .iter()
                .cloned()
                .filter(|x| *x >= a && *x <= b)
                .collect();
            if c.is_empty() {
                a
            } else {
                *r.pick(&c)
            }
        }
        _ => r.range(a, b),
    }
}

pub fn float_between(r: &mut Rng, a: f64, b: f64) -> f64 {
    match r.below(7) {
        0 => {
            let n = f64::from_bits(if a >= 0.0 {
                a.to_bits() + 1
            } else if a == 0.0 {
                1
            } else {
                a.to_bits() - 1
            });
            n
        }
        1 => a / 2.0 + b / 2.0,
        2 => {
            let c: Vec<f64> = FLOAT_SPECIAL
                .iter()
                .cloned()
                .filter(|x| *x >= a && *x <= b)
                .collect();
            if c.is_empty() {
                a
            } else {
                *r.pick(&c)
            }
        }
        3 => {
            // an integral value inside, if any
            let c = (a / 2.0 + b / 2.0).round();
            c
        }
        4 => {
            let c = a.ceil();
            c
        }
        _ => {
            let t = r.f01();
            let v = a * (1.0 - t) + b * t;
            if v.is_finite() {
                v
            } else {
                a
            }
        }
    }
}

pub fn text_between(r: &mut Rng, a: &str, b: &str) -> String {
    // extend the lower bound by a small character: stays >= a; caller re-checks <= b
    let _ = b;
    let mut s = a.to_string();
    s.push(*r.pick(&['\u{1}', ' ', '0', 'A', 'a']));
    s
}

/// Values of temporal types are kept within years 1..=9999 (the common domain of SQL engines)
pub fn clamp_date(d: NaiveDate) -> NaiveDate {
    let lo = NaiveDate::from_ymd_opt(1, 1, 1).unwrap();
    let hi = NaiveDate::from_ymd_opt(9999, 12, 31).unwrap();
    d.clamp(lo, hi)
}

/// Element type to draw the elements of one collection from: collections are homogeneous
/// (a list mixing integers and booleans cannot come out of SQL), so `any` is narrowed once.
fn element_type(r: &mut Rng, t: &DataType) -> DataType {
    match t {
        DataType::Any => loop {
            let p = gen_primitive(r);
            if !matches!(p, DataType::Any | DataType::Null) {
                break p;
            }
        },
        DataType::Optional(o) => DataType::optional(element_type(r, o.data_type())),
        DataType::Struct(s) => DataType::Struct(dt::Struct::new(
            s.fields()
                .iter()
                .map(|(n, t)| (n.clone(), Arc::new(element_type(r, t))))
                .collect(),
        )),
        DataType::Union(s) => {
            // one alternative only, so that all elements have the same shape
            let f = s.fields();
            if f.is_empty() {
                t.clone()
            } else {
                let (n, ft) = &f[r.usize(f.len())];
                DataType::Union(dt::Union::new(vec![(n.clone(), Arc::new(element_type(r, ft)))]))
            }
        }
        DataType::List(l) => DataType::List(dt::List::new(
            Arc::new(element_type(r, l.data_type())),
            l.size().clone(),
        )),
        DataType::Set(l) => DataType::Set(dt::Set::new(
            Arc::new(element_type(r, l.data_type())),
            l.size().clone(),
        )),
        DataType::Array(a) => DataType::Array(dt::Array::new(
            Arc::new(element_type(r, a.data_type())),
            a.shape().into(),
        )),
        t => t.clone(),
    }
}

/// A value belonging (structurally) to `t`, when one can be built
pub fn gen_value_in(r: &mut Rng, t: &DataType) -> Option<Value> {
    Some(match t {
        DataType::Null => return None,
        DataType::Unit(_) => Value::unit(),
        DataType::Boolean(b) => Value::boolean(pick_in(r, b, &mut |r, _, _| r.bool())?),
        DataType::Integer(i) => Value::integer(pick_in(r, i, &mut |r, a, b| int_between(r, *a, *b))?),
        DataType::Enum(e) => {
            let entries: Arc<[(String, i64)]> = e.iter().cloned().collect();
            let (_, code) = e[r.usize(e.len())].clone();
            Value::enumeration(code, entries)
        }
        DataType::Float(f) => Value::float(pick_in(r, f, &mut |r, a, b| float_between(r, *a, *b))?),
        DataType::Text(t) => Value::text(pick_in(r, t, &mut |r, a, b| text_between(r, a, b))?),
        DataType::Bytes(_) => Value::bytes((0..r.usize(4)).map(|_| r.next() as u8).collect::<Vec<u8>>()),
        DataType::Struct(s) => Value::Struct(value::Struct::new(
            s.fields()
                .iter()
                .map(|(n, t)| Some((n.clone(), Arc::new(gen_value_in(r, t)?))))
                .collect::<Option<Vec<_>>>()?,
        )),
        DataType::Union(u) => {
            let fields = u.fields();
            if fields.is_empty() {
                return None;
            }
            let (n, t) = &fields[r.usize(fields.len())];
            Value::union(n.clone(), gen_value_in(r, t)?)
        }
        DataType::Optional(o) => {
            if r.chance(1, 3) {
                Value::none()
            } else {
                match gen_value_in(r, o.data_type()) {
                    Some(v) => Value::some(v),
                    None => Value::none(),
                }
            }
        }
        DataType::List(l) => {
            let n = gen_value_in(r, &DataType::Integer(l.size().clone()))?;
            let n = if let Value::Integer(n) = n { (*n).clamp(0, 6) } else { 0 };
            if !l.size().contains(&n) {
                return None;
            }
            let et = element_type(r, l.data_type());
            Value::list(
                (0..n)
                    .map(|_| gen_value_in(r, &et))
                    .collect::<Option<Vec<_>>>()?,
            )
        }
        DataType::Set(s) => {
            let n = gen_value_in(r, &DataType::Integer(s.size().clone()))?;
            let n = if let Value::Integer(n) = n { (*n).clamp(0, 6) } else { 0 };
            let et = element_type(r, s.data_type());
            let vs = (0..n)
                .map(|_| gen_value_in(r, &et))
                .collect::<Option<Vec<_>>>()?;
            let v = Value::set(vs);
            if let Value::Set(set) = &v {
                if !s.size().contains(&(set.len() as i64)) {
                    return None;
                }
            }
            v
        }
        DataType::Array(a) => {
            let n: usize = a.shape().iter().product();
            if n > 16 {
                return None;
            }
            let et = element_type(r, a.data_type());
            let vs = (0..n)
                .map(|_| gen_value_in(r, &et))
                .collect::<Option<Vec<_>>>()?;
            Value::Array(value::Array::from((vs, a.shape().to_vec())))
        }
        DataType::Date(d) => {
            let v = pick_in(r, d, &mut |r, a, b| {
                let n = b.signed_duration_since(*a).num_days();
                *a + Duration::days(r.range(0, n))
            })?;
            let v = clamp_date(v);
            if !d.iter().any(|[a, b]| a <= &v && &v <= b) {
                return None;
            }
            Value::date(v)
        }
        DataType::Time(t) => Value::time(pick_in(r, t, &mut |r, a, b| {
            let n = b.signed_duration_since(*a).num_seconds();
            *a + Duration::seconds(r.range(0, n))
        })?),
        DataType::DateTime(d) => {
            let v = pick_in(r, d, &mut |r, a, b| {
                let n = b.signed_duration_since(*a).num_seconds();
                a.checked_add_signed(Duration::seconds(r.range(0, n))).unwrap_or(*a)
            })?;
            let v = clamp_date(v.date()).and_time(v.time());
            if !d.iter().any(|[a, b]| a <= &v && &v <= b) {
                return None;
            }
            Value::date_time(v)
        }
        DataType::Duration(d) => Value::duration(pick_in(r, d, &mut |r, a, b| {
            let n = b.checked_sub(a).map(|d| d.num_seconds()).unwrap_or(0);
            a.checked_add(&Duration::seconds(r.range(0, n))).unwrap_or(*a)
        })?),
        DataType::Id(_) => Value::id(format!("id{}", r.below(5))),
        DataType::Function(_) => return None,
        DataType::Any => gen_value_any(r, 1),
    })
}

/// An arbitrary value
pub fn gen_value_any(r: &mut Rng, depth: u32) -> Value {
    match r.below(if depth == 0 { 12 } else { 16 }) {
        0..=2 => Value::integer(int_any(r)),
        3..=5 => Value::float(float_any(r)),
        6..=7 => Value::text(text_any(r)),
        8 => Value::boolean(r.bool()),
        9 => Value::date(date_any(r)),
        10 => Value::date_time(datetime_any(r)),
        11 => match r.below(4) {
            0 => Value::time(time_any(r)),
            1 => Value::duration(duration_any(r)),
            2 => Value::unit(),
            _ => Value::id("id1"),
        },
        12 => {
            if r.bool() {
                Value::none()
            } else {
                Value::some(gen_value_any(r, depth - 1))
            }
        }
        13 => {
            let n = r.usize(3);
            let mut names = FIELD_NAMES.to_vec();
            r.shuffle(&mut names);
            Value::Struct(value::Struct::new(
                names
                    .into_iter()
                    .take(n)
                    .map(|s| (s.to_string(), Arc::new(gen_value_any(r, depth - 1))))
                    .collect(),
            ))
        }
        14 => {
            let et = element_type(r, &DataType::Any);
            Value::list(
                (0..r.usize(3))
                    .filter_map(|_| gen_value_in(r, &et))
                    .collect::<Vec<_>>(),
            )
        }
        _ => Value::union(r.pick(FIELD_NAMES).to_string(), gen_value_any(r, depth - 1)),
    }
}
