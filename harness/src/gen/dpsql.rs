//! Queries over the DP world (users / orders / items / shops / events), DP parameters, and relation
//! trees for the rewriting search.
use crate::gen::catalog::*;
use crate::util::Rng;
use qrlew::differential_privacy::DpParameters;

#[derive(Clone, Debug)]
pub struct DpQuery {
    pub sql: String,
    pub features: Vec<&'static str>,
    /// grouping keys are all public-valued (or there is none): C09 can compare with the original
    pub public_keys_only: bool,
    /// aliases of the grouping keys in the output
    pub keys: Vec<String>,
    /// (output alias, kind, argument) of the aggregates
    pub aggs: Vec<(String, &'static str, String)>,
    /// FROM ... WHERE ... of the aggregation (to recompute reference statistics)
    pub from_where: String,
    /// GROUP BY expressions
    pub group_exprs: Vec<String>,
}

thread_local! {
    static LAST_AGGS: std::cell::RefCell<Vec<(String, &'static str, String)>> = std::cell::RefCell::new(vec![]);
}

fn agg_list(r: &mut Rng, cols: &[(&str, bool)], feats: &mut Vec<&'static str>, allow_distinct: bool) -> Vec<String> {
    LAST_AGGS.with(|a| a.borrow_mut().clear());
    // cols: (sql of a numeric column, nullable)
    let n = 1 + r.usize(3);
    let mut out = vec![];
    for k in 0..n {
        let (c, _) = *r.pick(cols);
        let e = match r.below(if allow_distinct { 12 } else { 9 }) {
            0 | 1 => "COUNT(*)".to_string(),
            2 => format!("COUNT({})", c),
            3 | 4 => format!("SUM({})", c),
            5 | 6 => format!("AVG({})", c),
            7 => {
                feats.push("variance");
                format!("VARIANCE({})", c)
            }
            8 => {
                feats.push("stddev");
                format!("STDDEV({})", c)
            }
            9 => {
                feats.push("count_distinct");
                format!("COUNT(DISTINCT {})", c)
            }
            10 => {
                feats.push("sum_distinct");
                format!("SUM(DISTINCT {})", c)
            }
            _ => {
                feats.push("avg_distinct");
                format!("AVG(DISTINCT {})", c)
            }
        };
        let kind: &'static str = if e.starts_with("COUNT(*)") {
            "count_star"
        } else if e.starts_with("COUNT(DISTINCT") {
            "count_distinct"
        } else if e.starts_with("COUNT(") {
            "count"
        } else if e.starts_with("SUM(DISTINCT") {
            "sum_distinct"
        } else if e.starts_with("SUM(") {
            "sum"
        } else if e.starts_with("AVG(DISTINCT") {
            "avg_distinct"
        } else if e.starts_with("AVG(") {
            "avg"
        } else if e.starts_with("VARIANCE(") {
            "variance"
        } else {
            "stddev"
        };
        LAST_AGGS.with(|a| a.borrow_mut().push((format!("m{}", k), kind, c.to_string())));
        out.push(format!("{} AS m{}", e, k));
    }
    out
}

/// A query the DP compiler is expected to accept (most of the time)
pub fn gen_dp_query(r: &mut Rng, w: &DpWorld) -> DpQuery {
    let mut feats: Vec<&'static str> = vec![];
    if r.chance(1, 20) {
        // two DP sub-queries of the same shape joined: each level and each side has its own mechanisms
        let (x, y) = *r.pick(&[("amount", "qty"), ("qty", "adj"), ("amount", "amount")]);
        let sql = format!(
            "WITH a AS (SELECT 2 * SUM({}) AS sx FROM orders), b AS (SELECT 2 * SUM({}) AS sy FROM orders) SELECT * FROM a CROSS JOIN b",
            x, y
        );
        return DpQuery { sql, features: vec!["join_of_dp_subqueries"], public_keys_only: false, keys: vec![], aggs: vec![], from_where: String::new(), group_exprs: vec![] };
    }
    let users = w.cat.table("users").unwrap();
    let city_public = users.cols[users.col("city").unwrap()].finite_values();
    let shape = r.below(24);
    let (from, num_cols, keys): (String, Vec<(&str, bool)>, Vec<(&str, bool)>) = match shape {
        0 | 1 | 2 => (
            "orders".into(),
            vec![("amount", true), ("qty", false), ("adj", false)],
            vec![("status", true), ("qty", true), ("user_id", false)],
        ),
        3 | 4 => (
            "users".into(),
            vec![("age", true), ("income", true), ("tier", false)],
            vec![("city", city_public), ("tier", true)],
        ),
        5 => {
            feats.push("join_fk");
            (
                "orders AS o JOIN users AS u ON o.user_id = u.id".into(),
                vec![("o.amount", true), ("o.qty", false), ("o.adj", false), ("u.age", true), ("u.income", true)],
                vec![("u.city", city_public), ("o.status", true), ("u.tier", true)],
            )
        }
        6 => {
            feats.push("join_fk2");
            (
                "items AS i JOIN orders AS o ON i.order_id = o.id".into(),
                vec![("i.price", true), ("o.amount", true), ("o.qty", false)],
                vec![("i.sku", true), ("o.status", true)],
            )
        }
        7 => ("items".into(), vec![("price", true)], vec![("sku", true), ("order_id", false)]),
        8 => {
            feats.push("join_public");
            (
                "users AS u JOIN shops AS s ON u.city = s.city".into(),
                vec![("u.age", true), ("u.income", true), ("s.rate", false)],
                vec![("s.region", true), ("u.tier", true)],
            )
        }
        9 => {
            feats.push("row_privacy");
            ("events".into(), vec![("x", false), ("y", true)], vec![("k", true)])
        }
        12 => {
            // two protected tables joined on something else than the privacy unit: rows of
            // different units match, the tracking has to add the unit equality itself
            feats.push("join_nonkey");
            (
                "orders AS a JOIN orders AS b ON a.qty = b.qty".into(),
                vec![("a.amount", true), ("b.amount", true), ("a.qty", false)],
                vec![("a.status", true), ("b.status", true)],
            )
        }
        13 => {
            feats.push("join_nonkey");
            (
                "users AS u JOIN orders AS o ON u.tier = o.qty".into(),
                vec![("o.amount", true), ("u.age", true), ("u.income", true)],
                vec![("u.city", city_public), ("o.status", true)],
            )
        }
        14 => {
            // a DP aggregation over a join with a DP sub-query: two levels of mechanisms to account for
            feats.push("dp_over_dp");
            (
                "orders AS o JOIN (SELECT status AS st, AVG(amount) AS m FROM orders GROUP BY status) AS s ON o.status = s.st".into(),
                vec![("o.amount", true), ("o.qty", false), ("(o.amount * s.m)", true)],
                vec![("o.status", true)],
            )
        }
        15 => {
            feats.push("dp_over_dp");
            (
                "users AS u JOIN (SELECT COUNT(*) AS n FROM orders) AS s ON u.age > s.n".into(),
                vec![("u.age", true), ("u.income", true)],
                vec![("u.tier", true)],
            )
        }
        16 => {
            // outer joins of protected tables: the preserved rows of the side that does not give the unit
            // carry a NULL privacy unit
            feats.push("outer_join_protected");
            (
                "users AS u RIGHT JOIN orders AS o ON u.id = o.user_id AND u.tier = 1".into(),
                vec![("o.amount", true), ("o.qty", false), ("o.adj", false)],
                vec![("o.status", true)],
            )
        }
        17 => {
            feats.push("outer_join_protected");
            (
                "users AS u FULL JOIN orders AS o ON u.id = o.user_id AND o.qty > 2".into(),
                vec![("o.amount", true), ("o.qty", false), ("u.age", true)],
                vec![("o.status", true), ("u.tier", true)],
            )
        }
        18 | 19 => {
            // the privacy unit is a plain, non-unique column of the table
            feats.push("direct_nonunique_unit");
            ("visits".into(), vec![("x", true)], vec![("city", city_public), ("uid", false)])
        }
        20 => {
            // an aggregation over a UNION ALL whose branches overlap: the duplicates count
            feats.push("union_all_derived");
            (
                "(SELECT user_id, amount, qty, status FROM orders WHERE qty > 1 UNION ALL SELECT user_id, amount, qty, status FROM orders WHERE adj < 0) AS sub".into(),
                vec![("amount", true), ("qty", false)],
                vec![("status", true)],
            )
        }
        21 => {
            feats.push("cross_join_protected");
            (
                "users AS u CROSS JOIN orders AS o".into(),
                vec![("o.amount", true), ("u.age", true)],
                vec![("o.status", true), ("u.tier", true)],
            )
        }
        22 => {
            // an aggregation over a sub-aggregation with its own groups (several units per group)
            feats.push("nested_aggregation");
            (
                "(SELECT status AS st, qty AS q, AVG(amount) AS m, COUNT(*) AS n FROM orders GROUP BY status, qty) AS sub".into(),
                vec![("m", true), ("n", false)],
                vec![("st", true)],
            )
        }
        23 => {
            // UNION ALL of two protected tables whose columns have different declared ranges
            feats.push("union_all_two_tables");
            (
                "(SELECT amount AS v, qty AS q FROM orders UNION ALL SELECT x AS v, uid AS q FROM visits) AS sub".into(),
                vec![("v", true), ("q", false)],
                vec![],
            )
        }
        10 => {
            feats.push("derived");
            (
                "(SELECT user_id, amount, qty, status FROM orders WHERE qty >= 0) AS sub".into(),
                vec![("amount", true), ("qty", false)],
                vec![("status", true)],
            )
        }
        _ => {
            feats.push("expr_in_agg");
            ("orders".into(), vec![("(amount * 2)", true), ("(qty + 1)", false), ("ABS(amount)", true)], vec![("status", true)])
        }
    };
    let mut public_keys_only = true;
    let nkeys = match r.below(5) {
        0 | 1 => 0,
        2 | 3 => 1,
        _ => 2,
    };
    let mut chosen: Vec<(&str, bool)> = vec![];
    for _ in 0..nkeys {
        let k = *r.pick(&keys);
        if !chosen.iter().any(|c| c.0 == k.0) {
            chosen.push(k);
        }
    }
    if chosen.iter().any(|(_, p)| !p) {
        public_keys_only = false;
        feats.push("private_key");
    }
    if !chosen.is_empty() {
        feats.push("group_by");
    }
    let aggs = agg_list(r, &num_cols, &mut feats, true);
    let mut items: Vec<String> = chosen.iter().enumerate().map(|(i, (k, _))| format!("{} AS k{}", k, i)).collect();
    items.extend(aggs);
    let wher = if r.chance(1, 3) {
        feats.push("where");
        let (c, _) = *r.pick(&num_cols);
        format!(" WHERE {} {} {}", c, r.pick(&[">", "<", ">=", "<>"]), r.range(-5, 30))
    } else {
        String::new()
    };
    let group = if chosen.is_empty() {
        String::new()
    } else {
        format!(" GROUP BY {}", chosen.iter().map(|(k, _)| k.to_string()).collect::<Vec<_>>().join(", "))
    };
    let keys_alias: Vec<String> = (0..chosen.len()).map(|i| format!("k{}", i)).collect();
    let group_exprs: Vec<String> = chosen.iter().map(|(k, _)| k.to_string()).collect();
    let from_where = format!("{}{}", from, wher);
    let aggs_meta = LAST_AGGS.with(|a| a.borrow().clone());
    let mut sql = format!("SELECT {} FROM {}{}{}", items.join(", "), from, wher, group);
    if r.chance(1, 8) {
        feats.push("having");
        sql.push_str(" HAVING COUNT(*) > 1");
        public_keys_only = false; // the set of groups then depends on the noisy count
    }
    if r.chance(1, 10) {
        // a DP sub-query joined or post-processed (event composition)
        feats.push("nested_dp");
        sql = format!("WITH dpq AS ({}) SELECT * FROM dpq", sql);
        if r.chance(1, 2) {
            // several plain projection layers above the aggregation
            feats.push("deep_projection");
            sql = format!("SELECT * FROM (SELECT * FROM (SELECT * FROM ({}) AS l1) AS l2) AS l3", sql);
        }
    }
    DpQuery { sql, features: feats, public_keys_only, keys: keys_alias, aggs: aggs_meta, from_where, group_exprs }
}

/// Queries for privacy-unit-preserving rewriting (no final aggregation required)
pub fn gen_pup_query(r: &mut Rng, _w: &DpWorld) -> DpQuery {
    let mut feats: Vec<&'static str> = vec![];
    let sql = match r.below(26) {
        24 => {
            feats.push("cross_join_pup_pup");
            "SELECT a.id AS aid, b.id AS bid, b.amount AS amount FROM users AS a CROSS JOIN orders AS b".to_string()
        }
        25 => {
            feats.push("cross_join_pup_pup");
            "SELECT a.id AS aid, b.id AS bid FROM orders AS a CROSS JOIN orders AS b".to_string()
        }
        21 => {
            feats.push("direct_nonunique_unit");
            "SELECT uid, city, x FROM visits".to_string()
        }
        22 => {
            feats.push("join_direct_unit");
            "SELECT v.city AS city, v.x AS x, u.age AS age FROM visits AS v JOIN users AS u ON v.uid = u.id".to_string()
        }
        23 => {
            feats.push("direct_unit_per_unit_aggregation");
            "SELECT uid, COUNT(*) AS n, SUM(x) AS s FROM visits GROUP BY uid".to_string()
        }
        17 => {
            feats.push("left_join_pup_pup_nonkey");
            "SELECT a.id AS aid, b.id AS bid, b.amount AS bamount FROM orders AS a LEFT JOIN orders AS b ON a.qty = b.qty".to_string()
        }
        18 => {
            feats.push("right_join_pup_pup_nonkey");
            "SELECT u.id AS uid, o.id AS oid, u.age AS age FROM users AS u RIGHT JOIN orders AS o ON u.tier = o.qty".to_string()
        }
        19 => {
            feats.push("full_join_pup_pup_nonkey");
            "SELECT a.id AS aid, b.id AS bid FROM users AS a FULL JOIN users AS b ON a.tier = b.tier".to_string()
        }
        20 => {
            feats.push("items_two_step_path");
            "SELECT sku, price, order_id FROM items".to_string()
        }
        14 => {
            feats.push("join_pup_pup_nonkey");
            "SELECT a.id AS aid, b.id AS bid, a.amount + b.amount AS s FROM orders AS a JOIN orders AS b ON a.qty = b.qty".to_string()
        }
        15 => {
            feats.push("join_users_users_nonkey");
            "SELECT a.id AS aid, b.age AS bage FROM users AS a JOIN users AS b ON a.tier = b.tier".to_string()
        }
        16 => {
            feats.push("intersect");
            "SELECT user_id FROM orders WHERE qty > 1 INTERSECT SELECT user_id FROM orders WHERE amount > 0".to_string()
        }
        0 => "SELECT id, user_id, amount FROM orders".to_string(),
        1 => format!("SELECT id, amount * 2 AS a2, qty FROM orders WHERE amount > {}", r.range(-10, 50)),
        2 => {
            feats.push("join_pup_pup");
            "SELECT o.id AS oid, u.age AS age, o.amount AS amount FROM orders AS o JOIN users AS u ON o.user_id = u.id".to_string()
        }
        3 => {
            feats.push("join_pup_public");
            "SELECT u.id AS uid, s.region AS region, u.income AS income FROM users AS u JOIN shops AS s ON u.city = s.city".to_string()
        }
        4 => {
            feats.push("join_public_pup_left");
            "SELECT s.region AS region, u.id AS uid FROM shops AS s LEFT JOIN users AS u ON u.city = s.city".to_string()
        }
        5 => {
            feats.push("join_pup_pup_left");
            "SELECT u.id AS uid, o.amount AS amount FROM users AS u LEFT JOIN orders AS o ON o.user_id = u.id".to_string()
        }
        6 => {
            feats.push("limit");
            format!("SELECT id, amount FROM orders ORDER BY amount DESC LIMIT {}", r.range(1, 4))
        }
        7 => {
            feats.push("per_unit_aggregation");
            "SELECT user_id, SUM(amount) AS s, COUNT(*) AS n FROM orders GROUP BY user_id".to_string()
        }
        8 => {
            feats.push("union");
            "SELECT id, amount FROM orders WHERE qty > 2 UNION ALL SELECT id, amount FROM orders WHERE qty <= 2".to_string()
        }
        9 => {
            feats.push("distinct");
            "SELECT DISTINCT status, qty FROM orders".to_string()
        }
        10 => {
            feats.push("join_items");
            "SELECT i.sku AS sku, i.price AS price, o.status AS status FROM items AS i JOIN orders AS o ON i.order_id = o.id".to_string()
        }
        11 => {
            feats.push("row_privacy");
            "SELECT k, x + 1 AS x1 FROM events WHERE y > 3".to_string()
        }
        12 => {
            feats.push("right_join");
            "SELECT u.id AS uid, o.id AS oid FROM orders AS o RIGHT JOIN users AS u ON o.user_id = u.id".to_string()
        }
        _ => {
            feats.push("cross_public");
            "SELECT u.id AS uid, s.rate AS rate FROM users AS u CROSS JOIN shops AS s".to_string()
        }
    };
    DpQuery { sql, features: feats, public_keys_only: true, keys: vec![], aggs: vec![], from_where: String::new(), group_exprs: vec![] }
}

pub fn gen_dp_parameters(r: &mut Rng) -> DpParameters {
    let eps = *r.pick(&[0.01, 0.1, 0.5, 1.0, 2.0, 10.0, 50.0]);
    let delta = *r.pick(&[1e-9, 1e-6, 1e-5, 1e-3, 0.01, 0.1]);
    let share = *r.pick(&[0.1, 0.5, 0.5, 0.9]);
    let mult = *r.pick(&[1.0, 2.0, 5.0, 100.0]);
    let mult_share = *r.pick(&[0.01, 0.1, 1.0]);
    let groups = *r.pick(&[1u64, 2, 5, 10]);
    DpParameters::new(eps, delta, share, mult, mult_share, groups)
}
