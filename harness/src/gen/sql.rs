//! Grammar-based generator of SQL queries inside the supported and *portable* fragment
//! (constructs that mean the same on SQLite and PostgreSQL), over a generated catalogue.
use crate::gen::catalog::*;
use crate::util::{hash64, Rng};
use qrlew::data_type::value::Value;
use qrlew::data_type::DataType;

#[derive(Clone, Debug, Default)]
pub struct GenQuery {
    pub sql: String,
    pub features: Vec<&'static str>,
    /// outermost ORDER BY present
    pub ordered: bool,
    pub limited: bool,
    /// the same query without LIMIT / OFFSET (when `limited`)
    pub unlimited_sql: Option<String>,
    /// ORDER BY keys as (output column name, descending)
    pub order_keys: Vec<(String, bool)>,
}

#[derive(Clone, Debug)]
pub struct ColRef {
    /// how to write it in SQL (possibly qualified)
    pub sql: String,
    /// bare name
    pub name: String,
    pub def: ColDef,
}

#[derive(Clone, Copy, Debug, PartialEq)]
pub enum Ty {
    Num,
    Text,
    Bool,
}

pub fn q(name: &str) -> String {
    // quote only when needed so that both spellings are exercised
    if name.chars().all(|c| c.is_ascii_alphanumeric() || c == '_') && !name.is_empty() {
        name.to_string()
    } else {
        format!("\"{}\"", name.replace('"', "\"\""))
    }
}

pub fn lit_of(v: &Value) -> String {
    match v {
        Value::Integer(i) => i.to_string(),
        Value::Float(f) => {
            let s = format!("{:?}", **f);
            if s.contains('e') || s.contains("inf") || s.contains("NaN") {
                format!("{:.1}", **f)
            } else {
                s
            }
        }
        Value::Text(s) => format!("'{}'", s.replace('\'', "''")),
        Value::Boolean(b) => if **b { "TRUE".into() } else { "FALSE".into() },
        Value::Optional(o) => match o.as_deref() {
            Some(x) => lit_of(x),
            None => "NULL".into(),
        },
        other => format!("'{}'", other),
    }
}

fn literal_near(r: &mut Rng, c: &ColDef) -> String {
    match crate::gen::types::gen_value_in(r, c.inner()) {
        Some(v) => {
            let v = strip_some(&v);
            match &v {
                Value::Integer(i) => i.saturating_add(r.range(-1, 1)).to_string(),
                Value::Float(f) => {
                    let x = **f + (r.range(-2, 2) as f64) / 2.0;
                    lit_of(&Value::float(x))
                }
                _ => lit_of(&v),
            }
        }
        None => "0".into(),
    }
}

pub struct Scope {
    pub cols: Vec<ColRef>,
}

impl Scope {
    fn of_kind(&self, t: Ty) -> Vec<&ColRef> {
        self.cols
            .iter()
            .filter(|c| match t {
                Ty::Num => c.def.is_numeric(),
                Ty::Text => c.def.is_text(),
                Ty::Bool => c.def.is_bool(),
            })
            .collect()
    }
}

/// A scalar expression of the requested kind over the scope (portable fragment)
pub fn scalar(r: &mut Rng, s: &Scope, t: Ty, depth: u32, feats: &mut Vec<&'static str>) -> String {
    let cols = s.of_kind(t);
    if depth == 0 || r.chance(2, 5) {
        if !cols.is_empty() && r.chance(4, 5) {
            return r.pick(&cols).sql.clone();
        }
        return match t {
            Ty::Num => {
                if r.bool() {
                    r.range(-5, 20).to_string()
                } else {
                    format!("{:.1}", r.range(-20, 40) as f64 / 2.0)
                }
            }
            Ty::Text => format!("'{}'", r.pick(&["a", "b", "x y", "it''s", "Z", ""])),
            Ty::Bool => {
                if !s.of_kind(Ty::Num).is_empty() {
                    let c = *r.pick(&s.of_kind(Ty::Num));
                    format!("({} > {})", c.sql, literal_near(r, &c.def))
                } else {
                    "TRUE".to_string()
                }
            }
        };
    }
    let d = depth - 1;
    match t {
        Ty::Num => match r.below(13) {
            0 => format!("({} + {})", scalar(r, s, Ty::Num, d, feats), scalar(r, s, Ty::Num, d, feats)),
            1 => format!("({} - {})", scalar(r, s, Ty::Num, d, feats), scalar(r, s, Ty::Num, d, feats)),
            2 => format!("({} * {})", scalar(r, s, Ty::Num, d, feats), scalar(r, s, Ty::Num, d, feats)),
            3 => {
                feats.push("division");
                // float division by a non-zero literal
                format!("({} / {})", scalar(r, s, Ty::Num, d, feats), r.pick(&["2.0", "4.0", "-2.0", "0.5"]))
            }
            4 => format!("ABS({})", scalar(r, s, Ty::Num, d, feats)),
            5 => format!("(- {})", scalar(r, s, Ty::Num, d, feats)),
            6 => {
                feats.push("case");
                format!(
                    "CASE WHEN {} THEN {} ELSE {} END",
                    scalar(r, s, Ty::Bool, d, feats),
                    scalar(r, s, Ty::Num, d, feats),
                    scalar(r, s, Ty::Num, d, feats)
                )
            }
            7 => {
                feats.push("coalesce");
                format!("COALESCE({}, {})", scalar(r, s, Ty::Num, d, feats), r.range(0, 3))
            }
            8 => {
                feats.push("greatest");
                format!("GREATEST({}, {})", scalar(r, s, Ty::Num, d, feats), scalar(r, s, Ty::Num, d, feats))
            }
            9 => format!("LEAST({}, {})", scalar(r, s, Ty::Num, d, feats), scalar(r, s, Ty::Num, d, feats)),
            10 => {
                feats.push("char_length");
                format!("CHAR_LENGTH({})", scalar(r, s, Ty::Text, d, feats))
            }
            11 => {
                feats.push("sqrt");
                format!("SQRT(ABS({}))", scalar(r, s, Ty::Num, d, feats))
            }
            _ => {
                feats.push("cast_float");
                format!("CAST({} AS FLOAT)", scalar(r, s, Ty::Num, d, feats))
            }
        },
        Ty::Text => match r.below(5) {
            0 => format!("UPPER({})", scalar(r, s, Ty::Text, d, feats)),
            1 => format!("LOWER({})", scalar(r, s, Ty::Text, d, feats)),
            2 => {
                feats.push("concat_op");
                format!("({} || {})", scalar(r, s, Ty::Text, d, feats), scalar(r, s, Ty::Text, d, feats))
            }
            3 => {
                feats.push("case");
                format!(
                    "CASE WHEN {} THEN {} ELSE {} END",
                    scalar(r, s, Ty::Bool, d, feats),
                    scalar(r, s, Ty::Text, d, feats),
                    scalar(r, s, Ty::Text, d, feats)
                )
            }
            _ => {
                let ints: Vec<&ColRef> = s.cols.iter().filter(|c| c.def.is_int()).collect();
                if ints.is_empty() {
                    scalar(r, s, Ty::Text, d, feats)
                } else {
                    feats.push("cast_text");
                    format!("CAST({} AS TEXT)", r.pick(&ints).sql)
                }
            }
        },
        Ty::Bool => predicate(r, s, d, feats),
    }
}

pub fn predicate(r: &mut Rng, s: &Scope, depth: u32, feats: &mut Vec<&'static str>) -> String {
    if depth > 0 && r.chance(1, 3) {
        let d = depth - 1;
        return match r.below(3) {
            0 => format!("({} AND {})", predicate(r, s, d, feats), predicate(r, s, d, feats)),
            1 => format!("({} OR {})", predicate(r, s, d, feats), predicate(r, s, d, feats)),
            _ => format!("(NOT {})", predicate(r, s, d, feats)),
        };
    }
    let nums = s.of_kind(Ty::Num);
    let texts = s.of_kind(Ty::Text);
    let bools = s.of_kind(Ty::Bool);
    let ops = [">", ">=", "<", "<=", "=", "<>"];
    match r.below(10) {
        0..=3 if !nums.is_empty() => {
            let c = *r.pick(&nums);
            format!("({} {} {})", c.sql, r.pick(&ops), literal_near(r, &c.def))
        }
        4 if nums.len() >= 2 => {
            let (a, b) = (*r.pick(&nums), *r.pick(&nums));
            format!("({} {} {})", a.sql, r.pick(&ops), b.sql)
        }
        5 if !texts.is_empty() => {
            let c = *r.pick(&texts);
            format!("({} {} {})", c.sql, r.pick(&["=", "<>", "<", ">="]), literal_near(r, &c.def))
        }
        6 if !s.cols.is_empty() => {
            let c = r.pick(&s.cols);
            feats.push("in_list");
            let n = 1 + r.usize(3);
            let vs: Vec<String> = (0..n).map(|_| literal_near(r, &c.def)).collect();
            if r.chance(1, 4) {
                feats.push("not_in_list");
                format!("({} NOT IN ({}))", c.sql, vs.join(", "))
            } else {
                format!("({} IN ({}))", c.sql, vs.join(", "))
            }
        }
        7 if !s.cols.is_empty() => {
            feats.push("is_null");
            let c = r.pick(&s.cols);
            format!("({} IS {}NULL)", c.sql, if r.bool() { "NOT " } else { "" })
        }
        8 if !bools.is_empty() => r.pick(&bools).sql.clone(),
        9 if !nums.is_empty() => {
            feats.push("between");
            let c = *r.pick(&nums);
            let (a, b) = (literal_near(r, &c.def), literal_near(r, &c.def));
            if r.chance(1, 3) {
                feats.push("not_between");
                format!("({} NOT BETWEEN {} AND {})", c.sql, a, b)
            } else {
                format!("({} BETWEEN {} AND {})", c.sql, a, b)
            }
        }
        _ => {
            if !nums.is_empty() {
                let c = *r.pick(&nums);
                format!("({} {} {})", c.sql, r.pick(&ops), literal_near(r, &c.def))
            } else {
                "(1 = 1)".to_string()
            }
        }
    }
}

struct FromClause {
    sql: String,
    scope: Scope,
    /// prefix with CTE definitions
    ctes: Vec<String>,
}

fn table_scope(t: &TableDef, alias: Option<&str>, qualify: bool) -> Vec<ColRef> {
    let prefix = alias.unwrap_or(&t.name);
    t.cols
        .iter()
        .map(|c| ColRef {
            sql: if qualify { format!("{}.{}", q(prefix), q(&c.name)) } else { q(&c.name) },
            name: c.name.clone(),
            def: c.clone(),
        })
        .collect()
}

fn gen_from(r: &mut Rng, cat: &Catalog, feats: &mut Vec<&'static str>, allow_cte: bool) -> FromClause {
    let t1 = r.pick(&cat.tables);
    let choice = r.below(10);
    // a CTE name may be defined only once per statement: the right branch of a set operation has none
    let choice = if choice == 8 && !allow_cte { 0 } else { choice };
    match choice {
        0..=3 => {
            // single table, maybe aliased
            if r.chance(1, 3) {
                feats.push("table_alias");
                FromClause { sql: format!("{} AS x", q(&t1.name)), scope: Scope { cols: table_scope(t1, Some("x"), r.bool()) }, ctes: vec![] }
            } else {
                FromClause { sql: q(&t1.name), scope: Scope { cols: table_scope(t1, None, r.chance(1, 4)) }, ctes: vec![] }
            }
        }
        4..=6 => {
            // join of two tables on id/ref
            let t2 = r.pick(&cat.tables);
            let (a1, a2) = ("l", "r");
            let kind = *r.pick(&["JOIN", "INNER JOIN", "LEFT JOIN", "LEFT OUTER JOIN", "RIGHT JOIN", "FULL JOIN", "CROSS JOIN"]);
            feats.push(match kind {
                "JOIN" | "INNER JOIN" => "join_inner",
                "LEFT JOIN" | "LEFT OUTER JOIN" => "join_left",
                "RIGHT JOIN" => "join_right",
                "FULL JOIN" => "join_full",
                _ => "join_cross",
            });
            let mut cols = table_scope(t1, Some(a1), true);
            cols.extend(table_scope(t2, Some(a2), true));
            // outer joins make the other side nullable
            let sql = if kind == "CROSS JOIN" {
                format!("{} AS {} CROSS JOIN {} AS {}", q(&t1.name), a1, q(&t2.name), a2)
            } else {
                let lc = if t1.col("ref").is_some() && r.bool() { "ref" } else { "id" };
                let rc = if t2.col("ref").is_some() && r.bool() { "ref" } else { "id" };
                // the key equality is written in either order (`l.x = r.y` or `r.y = l.x`); the order is a
                // function of the shape (not a fresh draw), so the rest of the case is unchanged
                let mut on = if hash64(&(kind, lc, rc, &t1.name, &t2.name)) % 2 == 1 {
                    feats.push("join_on_reversed");
                    format!("{}.{} = {}.{}", a2, rc, a1, lc)
                } else {
                    format!("{}.{} = {}.{}", a1, lc, a2, rc)
                };
                if r.chance(1, 4) {
                    let s = Scope { cols: cols.clone() };
                    on = format!("{} AND {}", on, predicate(r, &s, 0, feats));
                    feats.push("join_on_extra");
                } else if r.chance(1, 6) {
                    // a disjunction: the key equality no longer bounds the number of matches
                    let s = Scope { cols: cols.clone() };
                    let ln: Vec<&ColRef> = s.cols.iter().filter(|c| c.sql.starts_with("l.") && kind_of(&c.def) == Ty::Num).collect();
                    let rn: Vec<&ColRef> = s.cols.iter().filter(|c| c.sql.starts_with("r.") && kind_of(&c.def) == Ty::Num).collect();
                    if !ln.is_empty() && !rn.is_empty() {
                        on = format!("{} OR {} = {}", on, r.pick(&ln).sql, r.pick(&rn).sql);
                        feats.push("join_on_or");
                    }
                }
                if r.chance(1, 4) {
                    // both sides are sub-queries (each input of the join is then a node of its own)
                    feats.push("join_of_subqueries");
                    let side = |r: &mut Rng, t: &TableDef| {
                        let sc = Scope { cols: table_scope(t, None, false) };
                        let mut f2 = vec![];
                        let w = if r.bool() { format!(" WHERE {}", predicate(r, &sc, 1, &mut f2)) } else { String::new() };
                        // sometimes a side of at most 0 / 1 / 2 rows
                        let lim = if r.chance(1, 3) { format!(" LIMIT {}", r.below(3)) } else { String::new() };
                        format!("(SELECT * FROM {}{}{})", q(&t.name), w, lim)
                    };
                    format!("{} AS {} {} {} AS {} ON {}", side(r, t1), a1, kind, side(r, t2), a2, on)
                } else {
                    format!("{} AS {} {} {} AS {} ON {}", q(&t1.name), a1, kind, q(&t2.name), a2, on)
                }
            };
            for c in cols.iter_mut() {
                let left = c.sql.starts_with("l.");
                let nullable = match kind {
                    "LEFT JOIN" | "LEFT OUTER JOIN" => !left,
                    "RIGHT JOIN" => left,
                    "FULL JOIN" => true,
                    _ => false,
                };
                if nullable && !c.def.optional() {
                    c.def.ty = DataType::optional(c.def.ty.clone());
                }
            }
            FromClause { sql, scope: Scope { cols }, ctes: vec![] }
        }
        7 => {
            // derived table
            feats.push("derived_table");
            let inner_scope = Scope { cols: table_scope(t1, None, false) };
            let keep: Vec<&ColRef> = inner_scope.cols.iter().filter(|_| r.chance(2, 3)).collect();
            let keep: Vec<&ColRef> = if keep.is_empty() { inner_scope.cols.iter().take(1).collect() } else { keep };
            let mut f2 = vec![];
            let wher = if r.bool() { format!(" WHERE {}", predicate(r, &inner_scope, 1, &mut f2)) } else { String::new() };
            let sql = format!(
                "(SELECT {} FROM {}{}) AS sub",
                keep.iter().map(|c| c.sql.clone()).collect::<Vec<_>>().join(", "),
                q(&t1.name),
                wher
            );
            let cols = keep
                .iter()
                .map(|c| ColRef { sql: if r.bool() { format!("sub.{}", q(&c.name)) } else { q(&c.name) }, name: c.name.clone(), def: c.def.clone() })
                .collect();
            FromClause { sql, scope: Scope { cols }, ctes: vec![] }
        }
        8 if r.chance(1, 4) => {
            // a diamond: two CTEs over one shared CTE, joined
            feats.push("cte_diamond");
            let inner_scope = Scope { cols: table_scope(t1, None, false) };
            let mut f2 = vec![];
            let m = format!("dm AS (SELECT * FROM {} WHERE {})", q(&t1.name), predicate(r, &inner_scope, 1, &mut f2));
            let l = format!("dl AS (SELECT * FROM dm WHERE {})", predicate(r, &inner_scope, 0, &mut f2));
            let rr = "dr AS (SELECT * FROM dm)".to_string();
            let mut cols = table_scope(t1, Some("dl"), true);
            cols.extend(table_scope(t1, Some("dr"), true));
            FromClause { sql: "dl JOIN dr ON dl.id = dr.id".to_string(), scope: Scope { cols }, ctes: vec![m, l, rr] }
        }
        8 => {
            // CTE, possibly shadowing a table name
            feats.push("cte");
            let inner_scope = Scope { cols: table_scope(t1, None, false) };
            let mut f2 = vec![];
            let wher = if r.bool() { format!(" WHERE {}", predicate(r, &inner_scope, 1, &mut f2)) } else { String::new() };
            // sometimes the CTE takes the name of an existing table: the CTE is the one in scope
            // (not the table its body reads: SQLite calls that a circular reference, PostgreSQL reads the base table)
            let other: Vec<&TableDef> = cat.tables.iter().filter(|t| t.name != t1.name).collect();
            let name = if r.chance(1, 3) && !other.is_empty() { r.pick(&other).name.clone() } else { "w".to_string() };
            if name != "w" {
                feats.push("cte_shadows_table");
            }
            let cte = format!("{} AS (SELECT * FROM {}{})", name, q(&t1.name), wher);
            if r.chance(1, 3) {
                // the same CTE name defined again inside a derived table: the inner definition is the one in scope there
                feats.push("cte_redefined_in_subquery");
                let inner_where = format!(" WHERE {}", predicate(r, &inner_scope, 1, &mut f2));
                let sql = format!("(WITH {} AS (SELECT * FROM {}{}) SELECT * FROM {}) AS sub", name, q(&t1.name), inner_where, name);
                let cols = table_scope(t1, Some("sub"), r.bool());
                return FromClause { sql, scope: Scope { cols }, ctes: vec![cte] };
            }
            let cols = table_scope(t1, Some(&name), r.bool());
            FromClause { sql: name.clone(), scope: Scope { cols }, ctes: vec![cte] }
        }
        _ => {
            // USING / NATURAL join on the shared id column
            let t2 = r.pick(&cat.tables);
            if t1.name == t2.name {
                return FromClause { sql: q(&t1.name), scope: Scope { cols: table_scope(t1, None, false) }, ctes: vec![] };
            }
            feats.push("join_using");
            let kind = *r.pick(&["JOIN", "LEFT JOIN"]);
            let sql = format!("{} {} {} USING (id)", q(&t1.name), kind, q(&t2.name));
            // only unambiguous columns: id (merged) and columns present in exactly one table
            let mut cols: Vec<ColRef> = vec![];
            for (t, other) in [(t1, t2), (t2, t1)] {
                for c in t.cols.iter() {
                    if c.name != "id" && other.col(&c.name).is_none() {
                        let mut def = c.clone();
                        if kind == "LEFT JOIN" && t.name == t2.name && !def.optional() {
                            def.ty = DataType::optional(def.ty.clone());
                        }
                        cols.push(ColRef { sql: q(&c.name), name: c.name.clone(), def });
                    }
                }
            }
            if let Some(i) = t1.col("id") {
                cols.push(ColRef { sql: "id".into(), name: "id".into(), def: t1.cols[i].clone() });
            }
            FromClause { sql, scope: Scope { cols }, ctes: vec![] }
        }
    }
}

fn kind_of(c: &ColDef) -> Ty {
    if c.is_numeric() {
        Ty::Num
    } else if c.is_text() {
        Ty::Text
    } else {
        Ty::Bool
    }
}

/// One SELECT block; returns (sql without ctes, ctes, output arity, features...)
fn gen_select(r: &mut Rng, cat: &Catalog, feats: &mut Vec<&'static str>, allow_order: bool, fixed_arity: Option<Vec<Ty>>, allow_cte: bool) -> (String, Vec<String>, Vec<Ty>, bool, bool) {
    let from = gen_from(r, cat, feats, allow_cte);
    let s = &from.scope;
    let mut sql = String::from("SELECT ");
    let mut out_tys: Vec<Ty> = vec![];
    let aggregate = fixed_arity.is_none() && r.chance(2, 5);
    let wher = if r.chance(1, 2) { format!(" WHERE {}", predicate(r, s, 2, feats)) } else { String::new() };
    let mut group_by = String::new();
    let mut having = String::new();
    let mut order_candidates: Vec<String> = vec![];
    if aggregate {
        feats.push("aggregate");
        let mut items: Vec<String> = vec![];
        let mut keys: Vec<String> = vec![];
        let nkeys = r.usize(3);
        for k in 0..nkeys {
            if s.cols.is_empty() {
                break;
            }
            if r.chance(1, 8) && !s.of_kind(Ty::Num).is_empty() {
                // a select alias that shadows an input column, with GROUP BY on that name: the name is
                // the input column (SQL resolves GROUP BY against the FROM clause first), not the alias
                let c = (*r.pick(&s.of_kind(Ty::Num))).clone();
                let bare = q(&c.name);
                if s.cols.iter().filter(|x| x.name == c.name).count() == 1 && !keys.contains(&bare) && !keys.contains(&c.sql) {
                    feats.push("alias_shadows_column");
                    items.push(format!("CASE WHEN {} > {} THEN 1 ELSE 0 END AS {}", c.sql, literal_near(r, &c.def), bare));
                    keys.push(bare);
                    out_tys.push(Ty::Num);
                    continue;
                }
            }
            if r.chance(1, 5) && !s.of_kind(Ty::Num).is_empty() {
                // group by an expression with an alias
                feats.push("group_by_expr");
                let c = *r.pick(&s.of_kind(Ty::Num));
                let e = format!("({} + 1)", c.sql);
                let alias = format!("g{}", k);
                items.push(format!("{} AS {}", e, alias));
                keys.push(if r.bool() { alias.clone() } else { e });
                order_candidates.push(alias);
                out_tys.push(Ty::Num);
            } else {
                let c = r.pick(&s.cols);
                if keys.contains(&c.sql) {
                    continue;
                }
                keys.push(c.sql.clone());
                if r.chance(4, 5) {
                    if r.chance(1, 3) {
                        let alias = format!("k{}", k);
                        items.push(format!("{} AS {}", c.sql, alias));
                        order_candidates.push(alias);
                    } else {
                        items.push(c.sql.clone());
                        order_candidates.push(c.sql.clone());
                    }
                    out_tys.push(kind_of(&c.def));
                }
            }
        }
        let naggs = 1 + r.usize(3);
        for k in 0..naggs {
            let nums = s.of_kind(Ty::Num);
            let (e, ty) = match r.below(12) {
                0 | 1 => ("COUNT(*)".to_string(), Ty::Num),
                2 if !s.cols.is_empty() => (format!("COUNT({})", r.pick(&s.cols).sql), Ty::Num),
                3 if !s.cols.is_empty() => {
                    feats.push("count_distinct");
                    (format!("COUNT(DISTINCT {})", r.pick(&s.cols).sql), Ty::Num)
                }
                4 | 5 if !nums.is_empty() => (format!("SUM({})", r.pick(&nums).sql), Ty::Num),
                6 if !nums.is_empty() => (format!("AVG({})", r.pick(&nums).sql), Ty::Num),
                7 if !nums.is_empty() => (format!("MIN({})", r.pick(&nums).sql), Ty::Num),
                8 if !nums.is_empty() => (format!("MAX({})", r.pick(&nums).sql), Ty::Num),
                9 if !nums.is_empty() => {
                    feats.push("agg_of_expr");
                    (format!("SUM({})", scalar(r, s, Ty::Num, 1, feats)), Ty::Num)
                }
                10 if !nums.is_empty() => {
                    feats.push("expr_of_aggs");
                    let c = *r.pick(&nums);
                    (format!("(1 + SUM({}) / (COUNT({}) + 1))", c.sql, c.sql), Ty::Num)
                }
                11 if !nums.is_empty() => {
                    if r.bool() {
                        feats.push("sum_distinct");
                        (format!("SUM(DISTINCT {})", r.pick(&nums).sql), Ty::Num)
                    } else {
                        feats.push("avg_distinct");
                        (format!("AVG(DISTINCT {})", r.pick(&nums).sql), Ty::Num)
                    }
                }
                _ => ("COUNT(*)".to_string(), Ty::Num),
            };
            let alias = format!("m{}", k);
            items.push(format!("{} AS {}", e, alias));
            order_candidates.push(alias);
            out_tys.push(ty);
        }
        sql.push_str(&items.join(", "));
        if !keys.is_empty() {
            group_by = format!(" GROUP BY {}", keys.join(", "));
            feats.push("group_by");
        }
        if r.chance(1, 4) {
            feats.push("having");
            having = format!(" HAVING COUNT(*) > {}", r.range(0, 2));
        }
    } else {
        let distinct = r.chance(1, 6);
        if distinct {
            feats.push("distinct");
            sql.push_str("DISTINCT ");
        }
        let mut items = vec![];
        match &fixed_arity {
            Some(tys) => {
                for (k, t) in tys.iter().enumerate() {
                    let e = scalar(r, s, *t, 1, feats);
                    items.push(format!("{} AS c{}", e, k));
                    order_candidates.push(format!("c{}", k));
                    out_tys.push(*t);
                }
            }
            None => {
                if r.chance(1, 8) && !s.cols.is_empty() {
                    feats.push("select_star");
                    items.push("*".to_string());
                    for c in s.cols.iter() {
                        out_tys.push(kind_of(&c.def));
                    }
                } else {
                    let n = 1 + r.usize(4);
                    for k in 0..n {
                        let t = *r.pick(&[Ty::Num, Ty::Num, Ty::Text, Ty::Bool]);
                        if r.chance(1, 2) && !s.of_kind(t).is_empty() {
                            let c = *r.pick(&s.of_kind(t));
                            if r.chance(1, 3) {
                                items.push(format!("{} AS c{}", c.sql, k));
                                order_candidates.push(format!("c{}", k));
                            } else {
                                items.push(c.sql.clone());
                                order_candidates.push(c.sql.clone());
                            }
                        } else {
                            let e = scalar(r, s, t, 2, feats);
                            items.push(format!("{} AS c{}", e, k));
                            order_candidates.push(format!("c{}", k));
                        }
                        out_tys.push(t);
                    }
                }
            }
        }
        sql.push_str(&items.join(", "));
    }
    sql.push_str(&format!(" FROM {}{}{}{}", from.sql, wher, group_by, having));
    let mut ordered = false;
    let mut limited = false;
    LAST_ORDER.with(|o| o.borrow_mut().clear());
    LAST_UNLIMITED.with(|o| *o.borrow_mut() = None);
    if allow_order {
        if r.chance(1, 3) && !order_candidates.is_empty() {
            feats.push("order_by");
            let n = 1 + r.usize(2.min(order_candidates.len()));
            let mut keys = order_candidates.clone();
            r.shuffle(&mut keys);
            let mut rendered = vec![];
            for k in keys.into_iter().take(n) {
                let dir = *r.pick(&["", " ASC", " DESC"]);
                LAST_ORDER.with(|o| o.borrow_mut().push((k.clone(), dir == " DESC")));
                rendered.push(format!("{}{}", k, dir));
            }
            sql.push_str(&format!(" ORDER BY {}", rendered.join(", ")));
            ordered = true;
        }
        if r.chance(1, 5) {
            feats.push("limit");
            LAST_UNLIMITED.with(|o| *o.borrow_mut() = Some(sql.clone()));
            sql.push_str(&format!(" LIMIT {}", r.range(0, 6)));
            limited = true;
            if r.chance(1, 3) {
                feats.push("offset");
                sql.push_str(&format!(" OFFSET {}", r.range(0, 3)));
            }
        }
    }
    (sql, from.ctes, out_tys, ordered, limited)
}

thread_local! {
    static LAST_ORDER: std::cell::RefCell<Vec<(String, bool)>> = std::cell::RefCell::new(vec![]);
    static LAST_UNLIMITED: std::cell::RefCell<Option<String>> = std::cell::RefCell::new(None);
}

pub fn gen_query(r: &mut Rng, cat: &Catalog) -> GenQuery {
    let mut feats: Vec<&'static str> = vec![];
    if r.chance(1, 8) {
        // set operation between two selects of the same arity / kinds
        feats.push("set_operation");
        let n = 1 + r.usize(2);
        let tys: Vec<Ty> = (0..n).map(|_| *r.pick(&[Ty::Num, Ty::Text])).collect();
        // (CTEs are statement-wide: a CTE of the left branch named like a table would capture the right
        // branch's reference to that table, so branches of set operations define no CTE that shadows a table)
        let (l, lc, _, _, _) = loop {
            let mut f = vec![];
            let x = gen_select(r, cat, &mut f, false, Some(tys.clone()), true);
            if !f.contains(&"cte_shadows_table") {
                feats.extend(f);
                break x;
            }
        };
        let (rr, rc, _, _, _) = gen_select(r, cat, &mut feats, false, Some(tys), false);
        let op = *r.pick(&["UNION", "UNION ALL", "EXCEPT", "INTERSECT"]);
        feats.push(match op {
            "UNION" => "union",
            "UNION ALL" => "union_all",
            "EXCEPT" => "except",
            _ => "intersect",
        });
        let mut ctes = lc;
        for c in rc {
            if !ctes.contains(&c) {
                ctes.push(c);
            }
        }
        // a CTE name may only be defined once
        let mut seen = std::collections::HashSet::new();
        ctes.retain(|c| seen.insert(c.split(' ').next().unwrap_or("").to_string()));
        let with = if ctes.is_empty() { String::new() } else { format!("WITH {} ", ctes.join(", ")) };
        return GenQuery { sql: format!("{}{} {} {}", with, l, op, rr), features: feats, ordered: false, limited: false, unlimited_sql: None, order_keys: vec![] };
    }
    let (s, ctes, _, ordered, limited) = gen_select(r, cat, &mut feats, true, None, true);
    let with = if ctes.is_empty() { String::new() } else { format!("WITH {} ", ctes.join(", ")) };
    let order_keys = LAST_ORDER.with(|o| o.borrow().clone());
    let unlimited_sql = LAST_UNLIMITED.with(|o| o.borrow().clone()).map(|u| format!("{}{}", with, u));
    let mut g = GenQuery { sql: format!("{}{}", with, s), features: feats, ordered, limited, unlimited_sql, order_keys };
    if r.chance(1, 6) {
        // output names that need their quotes: mixed case, a space
        g.features.push("quoted_mixed_case_aliases");
        let rename = |text: &str| -> String {
            let mut out = text.to_string();
            for p in ["c", "k", "m", "g"] {
                for i in 0..10 {
                    let from = format!("{}{}", p, i);
                    let to = if i % 2 == 0 { format!("\"{}{}Cap\"", p.to_uppercase(), i) } else { format!("\"{} {}\"", p.to_uppercase(), i) };
                    // whole words only
                    let mut res = String::new();
                    let bytes: Vec<char> = out.chars().collect();
                    let mut k = 0;
                    while k < bytes.len() {
                        let is_start = k == 0 || !(bytes[k - 1].is_alphanumeric() || bytes[k - 1] == '_' || bytes[k - 1] == '"' || bytes[k - 1] == '.');
                        let slice: String = bytes[k..(k + from.len()).min(bytes.len())].iter().collect();
                        let after = bytes.get(k + from.len());
                        let is_end = after.map_or(true, |c| !(c.is_alphanumeric() || *c == '_' || *c == '"'));
                        if is_start && is_end && slice == from {
                            res.push_str(&to);
                            k += from.len();
                        } else {
                            res.push(bytes[k]);
                            k += 1;
                        }
                    }
                    out = res;
                }
            }
            out
        };
        g.sql = rename(&g.sql);
        g.unlimited_sql = g.unlimited_sql.as_ref().map(|u| rename(u));
        g.order_keys = g.order_keys.iter().map(|(k, d)| (rename(k).trim_matches('"').to_string(), *d)).collect();
    }
    g
}
