//! The offline execution oracle: an in-memory SQLite connection owned by the harness, with a small
//! declared compatibility layer (UDFs the PostgreSQL rendering needs and SQLite lacks), a
//! controlled `random()` source and staged execution (one temp table per CTE).
use qrlew::data_type::value::Value;
use rusqlite::functions::{Aggregate, Context, FunctionFlags};
use rusqlite::types::{Value as SqlValue, ValueRef};
use rusqlite::Connection;
use sqlparser::ast;
use std::sync::{Arc, Mutex};

#[derive(Clone, Debug, PartialEq)]
pub enum V {
    Null,
    Int(i64),
    Real(f64),
    Text(String),
    Blob(Vec<u8>),
}

impl V {
    pub fn is_null(&self) -> bool {
        matches!(self, V::Null)
    }
    pub fn as_f64(&self) -> Option<f64> {
        match self {
            V::Int(i) => Some(*i as f64),
            V::Real(f) => Some(*f),
            _ => None,
        }
    }
    pub fn render(&self) -> String {
        match self {
            V::Null => "NULL".into(),
            V::Int(i) => i.to_string(),
            V::Real(f) => format!("{:?}", f),
            V::Text(s) => format!("'{}'", s),
            V::Blob(b) => format!("x'{}'", b.iter().map(|x| format!("{:02x}", x)).collect::<String>()),
        }
    }
    /// exact key (uniqueness checks): 1 and 1.0 are the same value, 5.5 and 5.500000000000001 are not
    pub fn exact_key(&self) -> String {
        match self {
            V::Null => "∅".into(),
            V::Int(i) => format!("n:{}", i),
            V::Real(f) => {
                if f.fract() == 0.0 && f.abs() < 9.0e15 {
                    format!("n:{}", *f as i64)
                } else {
                    format!("n:{:?}", f)
                }
            }
            V::Text(s) => format!("t:{}", s),
            V::Blob(b) => format!("b:{:?}", b),
        }
    }
    /// canonical key for multiset comparison: numbers through f64 with rounding to 12 significant digits
    pub fn key(&self) -> String {
        match self {
            V::Null => "∅".into(),
            V::Int(i) => num_key(*i as f64, Some(*i)),
            V::Real(f) => num_key(*f, None),
            V::Text(s) => format!("t:{}", s),
            V::Blob(b) => format!("b:{:?}", b),
        }
    }
}

fn num_key(f: f64, i: Option<i64>) -> String {
    if let Some(i) = i {
        if i.unsigned_abs() < (1u64 << 53) {
            return format!("n:{:.10e}", i as f64);
        }
        return format!("n:{:.10e}", i as f64);
    }
    if f == 0.0 {
        return "n:0.0000000000e0".into();
    }
    format!("n:{:.10e}", f)
}

#[derive(Clone, Debug, Default)]
pub struct Rows {
    pub columns: Vec<String>,
    pub rows: Vec<Vec<V>>,
}

impl Rows {
    pub fn col(&self, name: &str) -> Option<usize> {
        self.columns.iter().position(|c| c == name)
    }
    pub fn multiset(&self) -> Vec<String> {
        let mut v: Vec<String> = self.rows.iter().map(|r| r.iter().map(|x| x.key()).collect::<Vec<_>>().join("|")).collect();
        v.sort();
        v
    }
    pub fn to_json(&self, max: usize) -> serde_json::Value {
        serde_json::json!({"columns": self.columns, "rows": self.rows.iter().take(max).map(|r| r.iter().map(|v| v.render()).collect::<Vec<_>>()).collect::<Vec<_>>(), "n_rows": self.rows.len()})
    }
}

/// How `random()` answers
#[derive(Clone, Debug)]
pub enum RandomMode {
    /// every draw is this constant (1.0 makes the Box–Muller term exactly 0)
    Const(f64),
    /// strictly increasing distinct values in (0, 1)
    Counter,
    /// xorshift PRNG
    Prng(u64),
}

pub struct RandomSource {
    pub mode: RandomMode,
    pub calls: u64,
    state: u64,
}

impl RandomSource {
    fn next(&mut self) -> f64 {
        self.calls += 1;
        match self.mode {
            RandomMode::Const(c) => c,
            RandomMode::Counter => {
                // distinct, increasing, never 0 or 1
                (self.calls as f64) / (self.calls as f64 + 1.0e6) * 0.5 + 0.25
            }
            RandomMode::Prng(seed) => {
                if self.state == 0 {
                    self.state = seed | 1;
                }
                let mut x = self.state;
                x ^= x << 13;
                x ^= x >> 7;
                x ^= x << 17;
                self.state = x;
                ((x >> 11) as f64 + 0.5) / (1u64 << 53) as f64
            }
        }
    }
}

pub struct Db {
    pub conn: Connection,
    pub random: Arc<Mutex<RandomSource>>,
}

fn arg_num(v: ValueRef<'_>) -> Option<f64> {
    match v {
        ValueRef::Integer(i) => Some(i as f64),
        ValueRef::Real(f) => Some(f),
        _ => None,
    }
}

struct Welford;
#[derive(Default)]
struct Acc {
    n: f64,
    sum: f64,
    sum2: f64,
}
struct VarAgg(bool); // true = stddev

impl Aggregate<Acc, Option<f64>> for VarAgg {
    fn init(&self, _ctx: &mut Context<'_>) -> rusqlite::Result<Acc> {
        Ok(Acc::default())
    }
    fn step(&self, ctx: &mut Context<'_>, acc: &mut Acc) -> rusqlite::Result<()> {
        if let Some(x) = arg_num(ctx.get_raw(0)) {
            acc.n += 1.0;
            acc.sum += x;
            acc.sum2 += x * x;
        }
        Ok(())
    }
    fn finalize(&self, _ctx: &mut Context<'_>, acc: Option<Acc>) -> rusqlite::Result<Option<f64>> {
        let acc = match acc {
            Some(a) => a,
            None => return Ok(None),
        };
        if acc.n < 2.0 {
            return Ok(None);
        }
        // sample variance, as PostgreSQL's VARIANCE / STDDEV
        let var = ((acc.sum2 - acc.sum * acc.sum / acc.n) / (acc.n - 1.0)).max(0.0);
        Ok(Some(if self.0 { var.sqrt() } else { var }))
    }
}

/// MD5 (RFC 1321), hex digest
pub fn md5_hex(input: &[u8]) -> String {
    let s: [u32; 64] = [
        7, 12, 17, 22, 7, 12, 17, 22, 7, 12, 17, 22, 7, 12, 17, 22, 5, 9, 14, 20, 5, 9, 14, 20, 5, 9, 14, 20, 5, 9, 14, 20, 4, 11,
        16, 23, 4, 11, 16, 23, 4, 11, 16, 23, 4, 11, 16, 23, 6, 10, 15, 21, 6, 10, 15, 21, 6, 10, 15, 21, 6, 10, 15, 21,
    ];
    let k: Vec<u32> = (0..64).map(|i| ((i as f64 + 1.0).sin().abs() * 4294967296.0) as u32).collect();
    let (mut a0, mut b0, mut c0, mut d0): (u32, u32, u32, u32) = (0x67452301, 0xefcdab89, 0x98badcfe, 0x10325476);
    let mut msg = input.to_vec();
    let bit_len = (input.len() as u64).wrapping_mul(8);
    msg.push(0x80);
    while msg.len() % 64 != 56 {
        msg.push(0);
    }
    msg.extend_from_slice(&bit_len.to_le_bytes());
    for chunk in msg.chunks(64) {
        let m: Vec<u32> = (0..16).map(|i| u32::from_le_bytes([chunk[4 * i], chunk[4 * i + 1], chunk[4 * i + 2], chunk[4 * i + 3]])).collect();
        let (mut a, mut b, mut c, mut d) = (a0, b0, c0, d0);
        for i in 0..64 {
            let (mut f, g);
            if i < 16 {
                f = (b & c) | (!b & d);
                g = i;
            } else if i < 32 {
                f = (d & b) | (!d & c);
                g = (5 * i + 1) % 16;
            } else if i < 48 {
                f = b ^ c ^ d;
                g = (3 * i + 5) % 16;
            } else {
                f = c ^ (b | !d);
                g = (7 * i) % 16;
            }
            f = f.wrapping_add(a).wrapping_add(k[i]).wrapping_add(m[g]);
            a = d;
            d = c;
            c = b;
            b = b.wrapping_add(f.rotate_left(s[i]));
        }
        a0 = a0.wrapping_add(a);
        b0 = b0.wrapping_add(b);
        c0 = c0.wrapping_add(c);
        d0 = d0.wrapping_add(d);
    }
    let mut out = String::new();
    for w in [a0, b0, c0, d0] {
        for b in w.to_le_bytes() {
            out.push_str(&format!("{:02x}", b));
        }
    }
    out
}

fn text_of(v: ValueRef<'_>) -> Option<String> {
    match v {
        ValueRef::Null => None,
        ValueRef::Integer(i) => Some(i.to_string()),
        ValueRef::Real(f) => Some(format_real(f)),
        ValueRef::Text(t) => Some(String::from_utf8_lossy(t).to_string()),
        ValueRef::Blob(b) => Some(String::from_utf8_lossy(b).to_string()),
    }
}

fn format_real(f: f64) -> String {
    // SQLite renders 1.0 as '1.0'
    if f.fract() == 0.0 && f.abs() < 1e15 {
        format!("{:.1}", f)
    } else {
        format!("{}", f)
    }
}

impl Db {
    /// `compat = false` gives a plain connection (only the `random` override), used to judge the SQLite dialect
    pub fn new(compat: bool, mode: RandomMode) -> Db {
        let conn = Connection::open_in_memory().expect("sqlite");
        // be strict: a double-quoted name that is not a column must be an error (as in PostgreSQL),
        // not silently a string literal
        unsafe {
            let h = conn.handle();
            let mut out: std::os::raw::c_int = 0;
            // SQLITE_DBCONFIG_DQS_DML = 1013, SQLITE_DBCONFIG_DQS_DDL = 1014
            rusqlite::ffi::sqlite3_db_config(h, 1013, 0 as std::os::raw::c_int, &mut out as *mut std::os::raw::c_int);
            rusqlite::ffi::sqlite3_db_config(h, 1014, 0 as std::os::raw::c_int, &mut out as *mut std::os::raw::c_int);
        }
        let random = Arc::new(Mutex::new(RandomSource { mode, calls: 0, state: 0 }));
        let det = FunctionFlags::SQLITE_UTF8 | FunctionFlags::SQLITE_DETERMINISTIC;
        {
            let src = random.clone();
            conn.create_scalar_function("random", 0, FunctionFlags::SQLITE_UTF8, move |_ctx| Ok(src.lock().unwrap().next()))
                .expect("random");
        }
        if compat {
            for (name, greatest) in [("greatest", true), ("least", false)] {
                conn.create_scalar_function(name, -1, det, move |ctx| {
                    // NULL-skipping like PostgreSQL; numbers compared numerically, texts as texts
                    let mut best: Option<SqlValue> = None;
                    for i in 0..ctx.len() {
                        let v = ctx.get_raw(i);
                        if matches!(v, ValueRef::Null) {
                            continue;
                        }
                        let cand: SqlValue = v.into();
                        best = Some(match best {
                            None => cand,
                            Some(b) => {
                                let ord = match (&b, &cand) {
                                    (SqlValue::Text(x), SqlValue::Text(y)) => x.cmp(y),
                                    _ => {
                                        let fx = match &b { SqlValue::Integer(i) => *i as f64, SqlValue::Real(f) => *f, _ => f64::NAN };
                                        let fy = match &cand { SqlValue::Integer(i) => *i as f64, SqlValue::Real(f) => *f, _ => f64::NAN };
                                        fx.partial_cmp(&fy).unwrap_or(std::cmp::Ordering::Equal)
                                    }
                                };
                                let take_cand = if greatest { ord == std::cmp::Ordering::Less } else { ord == std::cmp::Ordering::Greater };
                                if take_cand { cand } else { b }
                            }
                        });
                    }
                    Ok(best.unwrap_or(SqlValue::Null))
                })
                .expect("greatest/least");
            }
            conn.create_scalar_function("md5", 1, det, |ctx| Ok(text_of(ctx.get_raw(0)).map(|t| md5_hex(t.as_bytes()))))
                .expect("md5");
            conn.create_scalar_function("concat", -1, det, |ctx| {
                let mut s = String::new();
                for i in 0..ctx.len() {
                    if let Some(t) = text_of(ctx.get_raw(i)) {
                        s.push_str(&t);
                    }
                }
                Ok(s)
            })
            .expect("concat");
            conn.create_scalar_function("char_length", 1, det, |ctx| Ok(text_of(ctx.get_raw(0)).map(|t| t.chars().count() as i64)))
                .expect("char_length");
            conn.create_aggregate_function("variance", 1, det, VarAgg(false)).expect("variance");
            conn.create_aggregate_function("stddev", 1, det, VarAgg(true)).expect("stddev");
            let _ = Welford;
        }
        Db { conn, random }
    }

    pub fn set_random(&self, mode: RandomMode) {
        let mut r = self.random.lock().unwrap();
        r.mode = mode;
        r.state = 0;
        r.calls = 0;
    }

    pub fn exec(&self, sql: &str) -> Result<(), String> {
        self.conn.execute_batch(sql).map_err(|e| e.to_string())
    }

    pub fn query(&self, sql: &str) -> Result<Rows, String> {
        let mut stmt = self.conn.prepare(sql).map_err(|e| e.to_string())?;
        let columns: Vec<String> = stmt.column_names().iter().map(|s| s.to_string()).collect();
        let n = columns.len();
        let mut out = vec![];
        let mut rows = stmt.query([]).map_err(|e| e.to_string())?;
        loop {
            match rows.next() {
                Ok(Some(row)) => {
                    let mut r = Vec::with_capacity(n);
                    for i in 0..n {
                        r.push(match row.get_ref(i).map_err(|e| e.to_string())? {
                            ValueRef::Null => V::Null,
                            ValueRef::Integer(i) => V::Int(i),
                            ValueRef::Real(f) => V::Real(f),
                            ValueRef::Text(t) => V::Text(String::from_utf8_lossy(t).to_string()),
                            ValueRef::Blob(b) => V::Blob(b.to_vec()),
                        });
                    }
                    out.push(r);
                }
                Ok(None) => break,
                Err(e) => return Err(e.to_string()),
            }
        }
        Ok(Rows { columns, rows: out })
    }

    /// Create a base table and load rows (qrlew values)
    pub fn load_table(&self, name: &str, columns: &[(String, &'static str)], rows: &[Vec<Value>]) -> Result<(), String> {
        let cols = columns.iter().map(|(n, t)| format!("{} {}", quote_ident(n), t)).collect::<Vec<_>>().join(", ");
        self.exec(&format!("DROP TABLE IF EXISTS {}; CREATE TABLE {} ({});", quote_ident(name), quote_ident(name), cols))?;
        let placeholders = (0..columns.len()).map(|_| "?").collect::<Vec<_>>().join(", ");
        let mut stmt = self
            .conn
            .prepare(&format!("INSERT INTO {} VALUES ({})", quote_ident(name), placeholders))
            .map_err(|e| e.to_string())?;
        for r in rows {
            let vals: Vec<SqlValue> = r.iter().map(to_sql).collect();
            stmt.execute(rusqlite::params_from_iter(vals.iter())).map_err(|e| e.to_string())?;
        }
        Ok(())
    }

    /// Run a rendered query one CTE at a time: each CTE is materialised as a temp table named like
    /// the CTE. Returns the rows of every stage, in order, and the final result.
    pub fn staged(&self, sql: &str, hook: &mut dyn FnMut(&Db, &str, &[String]) -> Result<(), String>) -> Result<(Vec<(String, Rows)>, Rows), String> {
        self.staged_with(sql, &mut |_, _| {}, hook)
    }

    /// `before(db, stage)` runs before a stage is computed (e.g. to switch the random source),
    /// `after(db, stage, columns)` right after its temp table exists (e.g. to pin its content).
    pub fn staged_with(
        &self,
        sql: &str,
        before: &mut dyn FnMut(&Db, &str),
        after: &mut dyn FnMut(&Db, &str, &[String]) -> Result<(), String>,
    ) -> Result<(Vec<(String, Rows)>, Rows), String> {
        let dialect = sqlparser::dialect::PostgreSqlDialect {};
        let stmts = sqlparser::parser::Parser::parse_sql(&dialect, sql).map_err(|e| format!("reparse: {}", e))?;
        let query = match stmts.into_iter().next() {
            Some(ast::Statement::Query(q)) => *q,
            _ => return Err("not a query".into()),
        };
        let mut stages = vec![];
        let mut created: Vec<String> = vec![];
        let with = query.with.clone();
        let result = (|| -> Result<Rows, String> {
            if let Some(with) = with {
                for cte in with.cte_tables.iter() {
                    let name = cte.alias.name.value.clone();
                    if created.contains(&name) {
                        // what the engine itself answers for the unsplit query (two nodes of the relation
                        // received the same 4-character content-hash name)
                        return Err(format!("duplicate WITH table name: {}", name));
                    }
                    let cols: Vec<String> = cte.alias.columns.iter().map(|c| c.value.clone()).collect();
                    let body = fix_query(&cte.query).to_string();
                    let collist = if cols.is_empty() {
                        String::new()
                    } else {
                        format!(" ({})", cols.iter().map(|c| quote_ident(c)).collect::<Vec<_>>().join(", "))
                    };
                    let q = quote_ident(&name);
                    before(self, &name);
                    self.exec(&format!("DROP TABLE IF EXISTS temp.{q};"))?;
                    self.exec(&format!(
                        "CREATE TEMP TABLE {q} AS WITH {q}{collist} AS ({body}) SELECT * FROM {q};"
                    ))
                    .map_err(|e| format!("stage {}: {} in {}", name, e, body))?;
                    created.push(name.clone());
                    after(self, &name, &cols)?;
                    let rows = self.query(&format!("SELECT * FROM temp.{q}"))?;
                    stages.push((name, rows));
                }
            }
            let mut last = query.clone();
            last.with = None;
            before(self, "");
            self.query(&fix_query(&last).to_string())
        })();
        for name in created.iter() {
            let _ = self.exec(&format!("DROP TABLE IF EXISTS temp.{};", quote_ident(name)));
        }
        result.map(|r| (stages, r))
    }

    /// Replace the content of a materialised stage by the given rows (pinning)
    pub fn overwrite_stage(&self, name: &str, rows: &Rows) -> Result<(), String> {
        let q = quote_ident(name);
        self.exec(&format!("DELETE FROM temp.{q};"))?;
        if rows.columns.is_empty() {
            return Ok(());
        }
        let placeholders = (0..rows.columns.len()).map(|_| "?").collect::<Vec<_>>().join(", ");
        let mut stmt = self.conn.prepare(&format!("INSERT INTO temp.{q} VALUES ({placeholders})")).map_err(|e| e.to_string())?;
        for r in rows.rows.iter() {
            let vals: Vec<SqlValue> = r
                .iter()
                .map(|v| match v {
                    V::Null => SqlValue::Null,
                    V::Int(i) => SqlValue::Integer(*i),
                    V::Real(f) => SqlValue::Real(*f),
                    V::Text(s) => SqlValue::Text(s.clone()),
                    V::Blob(b) => SqlValue::Blob(b.clone()),
                })
                .collect();
            stmt.execute(rusqlite::params_from_iter(vals.iter())).map_err(|e| e.to_string())?;
        }
        Ok(())
    }

    /// Execute the whole (shimmed) query at once
    pub fn run_rendered(&self, sql: &str) -> Result<Rows, String> {
        let dialect = sqlparser::dialect::PostgreSqlDialect {};
        let stmts = sqlparser::parser::Parser::parse_sql(&dialect, sql).map_err(|e| format!("reparse: {}", e))?;
        match stmts.into_iter().next() {
            Some(ast::Statement::Query(q)) => self.query(&fix_query(&q).to_string()),
            _ => Err("not a query".into()),
        }
    }
}

/// the comparison key an engine value would have, for a harness value
pub fn to_sql_key(v: &Value) -> String {
    match to_sql(v) {
        SqlValue::Null => V::Null.key(),
        SqlValue::Integer(i) => V::Int(i).key(),
        SqlValue::Real(f) => V::Real(f).key(),
        SqlValue::Text(s) => V::Text(s).key(),
        SqlValue::Blob(b) => V::Blob(b).key(),
    }
}

pub fn quote_ident(s: &str) -> String {
    format!("\"{}\"", s.replace('"', "\"\""))
}

pub fn to_sql(v: &Value) -> SqlValue {
    match v {
        Value::Unit(_) => SqlValue::Null,
        Value::Boolean(b) => SqlValue::Integer(if **b { 1 } else { 0 }),
        Value::Integer(i) => SqlValue::Integer(**i),
        Value::Float(f) => SqlValue::Real(**f),
        Value::Text(s) => SqlValue::Text(s.to_string()),
        Value::Optional(o) => match o.as_deref() {
            None => SqlValue::Null,
            Some(x) => to_sql(x),
        },
        Value::Date(d) => SqlValue::Text(d.to_string()),
        Value::DateTime(d) => SqlValue::Text(d.to_string()),
        Value::Time(d) => SqlValue::Text(d.to_string()),
        Value::Bytes(b) => SqlValue::Blob(b.to_vec()),
        Value::Id(s) => SqlValue::Text(s.to_string()),
        other => SqlValue::Text(other.to_string()),
    }
}

/// The AST shim: SQLite rejects `(VALUES ...) AS v (c)`; rewrite derived VALUES tables with
/// alias column lists into `(SELECT column1 AS c, ... FROM (VALUES ...))`.
pub fn fix_query(q: &ast::Query) -> ast::Query {
    let mut q = q.clone();
    if let Some(with) = q.with.as_mut() {
        for cte in with.cte_tables.iter_mut() {
            *cte.query = fix_query(&cte.query);
        }
    }
    fix_setexpr(&mut q.body);
    q
}

fn fix_setexpr(e: &mut ast::SetExpr) {
    match e {
        ast::SetExpr::Select(s) => {
            for twj in s.from.iter_mut() {
                fix_factor(&mut twj.relation);
                for j in twj.joins.iter_mut() {
                    fix_factor(&mut j.relation);
                }
            }
        }
        ast::SetExpr::Query(q) => **q = fix_query(q),
        ast::SetExpr::SetOperation { left, right, .. } => {
            fix_setexpr(left);
            fix_setexpr(right);
        }
        _ => {}
    }
}

fn fix_factor(f: &mut ast::TableFactor) {
    if let ast::TableFactor::Derived { subquery, alias, .. } = f {
        **subquery = fix_query(subquery);
        if let (ast::SetExpr::Values(_), Some(a)) = (subquery.body.as_ref(), alias.as_mut()) {
            if !a.columns.is_empty() {
                let items = a
                    .columns
                    .iter()
                    .enumerate()
                    .map(|(i, c)| format!("column{} AS {}", i + 1, quote_ident(&c.value)))
                    .collect::<Vec<_>>()
                    .join(", ");
                let inner = format!("SELECT {} FROM ({})", items, subquery);
                let dialect = sqlparser::dialect::SQLiteDialect {};
                if let Ok(mut stmts) = sqlparser::parser::Parser::parse_sql(&dialect, &inner) {
                    if let Some(ast::Statement::Query(nq)) = stmts.pop() {
                        **subquery = *nq;
                        a.columns.clear();
                    }
                }
            }
        }
    }
}
