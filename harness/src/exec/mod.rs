pub mod sqlite;
