//! Shared plumbing: PRNG, report, isolated case execution.
use serde_json::{json, Value as J};
use std::{
    any::Any,
    cell::RefCell,
    collections::{BTreeMap, HashSet},
    hash::{Hash, Hasher},
    panic::{self, AssertUnwindSafe},
    sync::Once,
};

// ---------------------------------------------------------------- PRNG

/// xoshiro256** seeded by splitmix64; splittable by (seed, shard, case)
#[derive(Clone, Debug)]
pub struct Rng {
    s: [u64; 4],
}

fn splitmix(x: &mut u64) -> u64 {
    *x = x.wrapping_add(0x9E3779B97F4A7C15);
    let mut z = *x;
    z = (z ^ (z >> 30)).wrapping_mul(0xBF58476D1CE4E5B9);
    z = (z ^ (z >> 27)).wrapping_mul(0x94D049BB133111EB);
    z ^ (z >> 31)
}

impl Rng {
    pub fn new(seed: u64) -> Rng {
        let mut x = seed;
        Rng {
            s: [
                splitmix(&mut x),
                splitmix(&mut x),
                splitmix(&mut x),
                splitmix(&mut x),
            ],
        }
    }
    pub fn derive(seed: u64, shard: u64, case: u64) -> Rng {
        let mut x = seed ^ 0xD1B54A32D192ED03;
        let a = splitmix(&mut x);
        let mut y = a ^ shard.wrapping_mul(0x9E3779B97F4A7C15);
        let b = splitmix(&mut y);
        let mut z = b ^ case.wrapping_mul(0xC2B2AE3D27D4EB4F);
        Rng::new(splitmix(&mut z))
    }
    pub fn next(&mut self) -> u64 {
        let r = self.s[1].wrapping_mul(5).rotate_left(7).wrapping_mul(9);
        let t = self.s[1] << 17;
        self.s[2] ^= self.s[0];
        self.s[3] ^= self.s[1];
        self.s[1] ^= self.s[2];
        self.s[0] ^= self.s[3];
        self.s[2] ^= t;
        self.s[3] = self.s[3].rotate_left(45);
        r
    }
    /// uniform in [0, n)
    pub fn below(&mut self, n: u64) -> u64 {
        if n == 0 {
            0
        } else {
            self.next() % n
        }
    }
    pub fn usize(&mut self, n: usize) -> usize {
        self.below(n as u64) as usize
    }
    /// inclusive range
    pub fn range(&mut self, lo: i64, hi: i64) -> i64 {
        if hi <= lo {
            return lo;
        }
        let span = (hi as i128 - lo as i128 + 1) as u128;
        (lo as i128 + (self.next() as u128 % span) as i128) as i64
    }
    pub fn bool(&mut self) -> bool {
        self.next() & 1 == 1
    }
    /// true with probability num/den
    pub fn chance(&mut self, num: u64, den: u64) -> bool {
        self.below(den) < num
    }
    pub fn f01(&mut self) -> f64 {
        (self.next() >> 11) as f64 / (1u64 << 53) as f64
    }
    pub fn pick<'a, T>(&mut self, v: &'a [T]) -> &'a T {
        &v[self.usize(v.len())]
    }
    pub fn shuffle<T>(&mut self, v: &mut [T]) {
        for i in (1..v.len()).rev() {
            let j = self.usize(i + 1);
            v.swap(i, j);
        }
    }
}

pub fn hash64<T: Hash + ?Sized>(t: &T) -> u64 {
    // FNV-style stable hasher (DefaultHasher is stable within a build; good enough, but keep it explicit)
    let mut h = Fnv(0xcbf29ce484222325);
    t.hash(&mut h);
    h.finish()
}

struct Fnv(u64);
impl Hasher for Fnv {
    fn finish(&self) -> u64 {
        self.0
    }
    fn write(&mut self, bytes: &[u8]) {
        for b in bytes {
            self.0 ^= *b as u64;
            self.0 = self.0.wrapping_mul(0x100000001b3);
        }
    }
}

// ---------------------------------------------------------------- panics

#[derive(Clone, Debug)]
pub struct PanicInfo {
    pub message: String,
    /// file:line:col of the panic
    pub location: String,
    /// file only (signature material: survives line shifts)
    pub file: String,
    /// true when the payload is the work-budget marker of the hooks
    pub budget: bool,
}

thread_local! {
    static LAST_PANIC: RefCell<Option<(String, String, String)>> = RefCell::new(None);
    static QUIET: RefCell<bool> = RefCell::new(true);
}

static HOOK: Once = Once::new();

/// Logical work budget of one guarded call (interval operations + enumerated values)
pub static WORK_BUDGET: std::sync::atomic::AtomicU64 = std::sync::atomic::AtomicU64::new(2_000_000_000);

pub fn install_panic_hook() {
    HOOK.call_once(|| {
        panic::set_hook(Box::new(|info| {
            let loc = info
                .location()
                .map(|l| (format!("{}:{}:{}", l.file(), l.line(), l.column()), l.file().to_string()))
                .unwrap_or_default();
            let msg = payload_message(info.payload());
            LAST_PANIC.with(|p| *p.borrow_mut() = Some((msg.clone(), loc.0.clone(), loc.1.clone())));
            if std::env::var("QV_BACKTRACE").is_ok() {
                eprintln!("panic at {}: {}\n{}", loc.0, msg, std::backtrace::Backtrace::force_capture());
            }
        }));
    });
}

fn payload_message(p: &(dyn Any + Send)) -> String {
    if let Some(s) = p.downcast_ref::<&str>() {
        s.to_string()
    } else if let Some(s) = p.downcast_ref::<String>() {
        s.clone()
    } else if let Some(b) = p.downcast_ref::<qrlew::verif_hooks::BudgetExceeded>() {
        format!("work budget exceeded at {} after {} ticks", b.site, b.ticks)
    } else {
        "<non-string panic payload>".to_string()
    }
}

/// Run `f` under catch_unwind on the current thread.
pub fn guarded<T>(f: impl FnOnce() -> T) -> Result<T, PanicInfo> {
    install_panic_hook();
    LAST_PANIC.with(|p| *p.borrow_mut() = None);
    qrlew::verif_hooks::set_budget(WORK_BUDGET.load(std::sync::atomic::Ordering::Relaxed));
    let result = panic::catch_unwind(AssertUnwindSafe(f));
    // re-arm (an exhausted budget disarms itself so that unwinding code is not interrupted)
    qrlew::verif_hooks::set_budget(WORK_BUDGET.load(std::sync::atomic::Ordering::Relaxed));
    match result {
        Ok(v) => Ok(v),
        Err(payload) => {
            let budget = payload
                .downcast_ref::<qrlew::verif_hooks::BudgetExceeded>()
                .is_some();
            let (message, location, file) = LAST_PANIC
                .with(|p| p.borrow_mut().take())
                .unwrap_or_else(|| (payload_message(payload.as_ref()), String::new(), String::new()));
            Err(PanicInfo {
                message,
                location,
                file: strip_repo(&file),
                budget,
            })
        }
    }
}

pub fn strip_repo(file: &str) -> String {
    file.strip_prefix("/repo/").unwrap_or(file).to_string()
}

/// Run `f` on a fresh thread (fresh thread-locals, big stack) under catch_unwind.
pub fn isolated<T: Send>(f: impl FnOnce() -> T + Send) -> Result<T, PanicInfo> {
    std::thread::scope(|s| {
        std::thread::Builder::new()
            .stack_size(256 << 20)
            .spawn_scoped(s, || guarded(f))
            .expect("spawn")
            .join()
            .unwrap_or_else(|_| {
                Err(PanicInfo {
                    message: "thread died".into(),
                    location: String::new(),
                    file: String::new(),
                    budget: false,
                })
            })
    })
}

/// Normalise a panic message into signature material: digits and quoted material removed.
pub fn normalise_message(msg: &str) -> String {
    let first = msg.lines().next().unwrap_or("");
    // quoted material (names, values of the failing input) is not part of the signature
    let first = first.split('"').next().unwrap_or(first);
    let mut out = String::new();
    let mut last_hash = false;
    for c in first.chars().take(120) {
        if c.is_ascii_digit() {
            if !last_hash {
                out.push('#');
                last_hash = true;
            }
        } else {
            out.push(c);
            last_hash = false;
        }
    }
    out
}

// ---------------------------------------------------------------- report

#[derive(Clone, Debug)]
pub struct Violation {
    pub signature: String,
    pub detail: String,
    pub case: J,
    pub count: u64,
}

pub struct Report {
    pub property: String,
    pub seed: u64,
    pub shard: u64,
    /// index of the case being run (attached to violations for replay)
    pub current: u64,
    pub evaluations: u64,
    pub counters: BTreeMap<String, u64>,
    pub distinct: HashSet<u64>,
    pub distinct_overflow: u64,
    pub violations: Vec<Violation>,
    pub samples: Vec<J>,
    pub notes: Vec<String>,
}

const MAX_HASHES: usize = 400_000;

impl Report {
    pub fn new(property: &str) -> Report {
        Report {
            property: property.to_string(),
            seed: 0,
            shard: 0,
            current: 0,
            evaluations: 0,
            counters: BTreeMap::new(),
            distinct: HashSet::new(),
            distinct_overflow: 0,
            violations: vec![],
            samples: vec![],
            notes: vec![],
        }
    }
    pub fn count(&mut self, key: &str) {
        self.add(key, 1);
    }
    pub fn add(&mut self, key: &str, n: u64) {
        if let Some(c) = self.counters.get_mut(key) {
            *c += n;
        } else {
            self.counters.insert(key.to_string(), n);
        }
    }
    /// one more evaluation
    pub fn eval(&mut self) {
        self.evaluations += 1;
    }
    /// record a distinct non-trivial case by hash
    pub fn nontrivial(&mut self, h: u64) {
        if self.distinct.len() < MAX_HASHES {
            self.distinct.insert(h);
        } else if !self.distinct.contains(&h) {
            self.distinct_overflow += 1;
        }
    }
    pub fn sample(&mut self, j: impl FnOnce() -> J) {
        if self.samples.len() < 4 {
            self.samples.push(j());
        }
    }
    pub fn for_params(property: &str, p: &Params) -> Report {
        let mut r = Report::new(property);
        r.seed = p.seed;
        r.shard = p.shard;
        r
    }
    pub fn violation(&mut self, signature: String, detail: String, case: J) {
        let case = json!({"seed": self.seed, "shard": self.shard, "case_index": self.current, "data": case});
        if let Some(v) = self.violations.iter_mut().find(|v| v.signature == signature) {
            v.count += 1;
            // keep the smallest witness
            if case.to_string().len() < v.case.to_string().len() {
                v.case = case;
                v.detail = detail;
            }
        } else {
            self.violations.push(Violation {
                signature,
                detail,
                case,
                count: 1,
            });
        }
    }
    pub fn to_json(&self) -> J {
        let mut hashes: Vec<u64> = self.distinct.iter().cloned().collect();
        hashes.sort();
        json!({
            "property": self.property,
            "evaluations": self.evaluations,
            "counters": self.counters,
            "distinct_hashes": hashes.iter().map(|h| format!("{:016x}", h)).collect::<Vec<_>>(),
            "distinct_overflow": self.distinct_overflow,
            "violations": self.violations.iter().map(|v| json!({
                "signature": v.signature, "detail": v.detail, "case": v.case, "count": v.count
            })).collect::<Vec<_>>(),
            "samples": self.samples,
            "notes": self.notes,
        })
    }
}

// ---------------------------------------------------------------- driving cases

/// Shard parameters shared by all monitors
#[derive(Clone, Debug)]
pub struct Params {
    pub seed: u64,
    pub shard: u64,
    pub shards: u64,
    /// number of cases for this shard
    pub cases: u64,
    /// optional replay file
    pub replay: Option<String>,
    /// in-flight log
    pub inflight: Option<String>,
    pub extra: BTreeMap<String, String>,
}

impl Params {
    pub fn rng(&self, case: u64) -> Rng {
        Rng::derive(self.seed, self.shard, case)
    }
    pub fn flag(&self, k: &str) -> bool {
        self.extra.get(k).map(|v| v != "0").unwrap_or(false)
    }
    pub fn num(&self, k: &str, default: u64) -> u64 {
        self.extra
            .get(k)
            .and_then(|v| v.parse().ok())
            .unwrap_or(default)
    }
}

thread_local! {
    /// when set, `drive` runs only this case index (replay)
    pub static ONLY_CASE: RefCell<Option<u64>> = RefCell::new(None);
}

/// Run cases `0..n`; every case under catch_unwind; after a panic the worker thread is replaced
/// (thread-local function tables of the library may be poisoned by a panic).
pub fn drive(
    n: u64,
    report: &mut Report,
    case: &(dyn Fn(u64, &mut Report) + Sync),
    on_panic: &(dyn Fn(u64, &PanicInfo, &mut Report) + Sync),
) {
    let only: Option<u64> = ONLY_CASE.with(|o| *o.borrow());
    // QV_TRACE=1: print every case index before it runs (to locate a case that aborts the process)
    let trace = std::env::var_os("QV_TRACE").is_some();
    let mut next = 0u64;
    while next < n {
        let start = next;
        let rep: &mut Report = report;
        let reached = std::thread::scope(|s| {
            std::thread::Builder::new()
                .stack_size(256 << 20)
                .spawn_scoped(s, move || {
                    let mut i = start;
                    while i < n {
                        rep.current = i;
                        if let Some(o) = only {
                            if o != i {
                                i += 1;
                                continue;
                            }
                        }
                        if trace {
                            eprintln!("case {}", i);
                        }
                        let r = guarded(|| case(i, rep));
                        i += 1;
                        if let Err(p) = r {
                            on_panic(i - 1, &p, rep);
                            break;
                        }
                    }
                    i
                })
                .expect("spawn")
                .join()
                .unwrap_or(start + 1)
        });
        next = reached.max(start + 1);
    }
}

pub fn write_inflight(path: &Option<String>, j: &J) {
    if let Some(p) = path {
        let _ = std::fs::write(p, j.to_string());
    }
}

pub fn fmt_f64(x: f64) -> String {
    format!("{:e}", x)
}
