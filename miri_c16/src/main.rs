//! C16, interpreter leg: a few compilations from concurrent threads under Miri
//! (data-race / undefined-behaviour detection in everything the compile path reaches, and
//! one scheduler seed = one interleaving of the accesses to the shared name counter).
use qrlew::builder::{Ready, With};
use qrlew::data_type::DataType;
use qrlew::hierarchy::Hierarchy;
use qrlew::relation::{Relation, Variant as _};
use std::sync::Arc;

fn compile(sql: &str, relations: &Hierarchy<Arc<Relation>>) -> String {
    let q = qrlew::sql::parse(sql).expect("parse");
    let r = Relation::try_from(q.with(relations)).expect("relation");
    let names = {
        let mut v = vec![];
        let mut stack = vec![&r];
        while let Some(x) = stack.pop() {
            v.push(x.name().to_string());
            for i in x.inputs() {
                stack.push(i);
            }
        }
        v.join(",")
    };
    format!("{} | {} | {}", names, r.schema(), qrlew::ast::Query::from(&r))
}

fn main() {
    let schema: qrlew::relation::Schema = vec![
        ("id", DataType::integer_interval(1, 20)),
        ("a", DataType::float_interval(-1.0, 4.0)),
        ("b", DataType::integer_interval(23, 34)),
    ]
    .into_iter()
    .collect();
    let t: Relation = Relation::table().name("t0").schema(schema).size(10).build();
    let relations: Hierarchy<Arc<Relation>> = vec![(vec!["t0".to_string()], Arc::new(t))].into_iter().collect();
    let queries = [
        "SELECT id, GREATEST(ABS(b), b) AS g FROM t0 WHERE a > 0 ORDER BY id",
        "SELECT b, COUNT(*) AS n, SUM(a) AS s FROM t0 GROUP BY b",
    ];
    let reference: Vec<String> = queries.iter().map(|q| compile(q, &relations)).collect();
    let relations = Arc::new(relations);
    let handles: Vec<_> = (0..2)
        .map(|t| {
            let relations = relations.clone();
            std::thread::spawn(move || {
                let order: [usize; 2] = if t == 0 { [0, 1] } else { [1, 0] };
                order.iter().map(|k| (*k, compile(queries[*k], &relations))).collect::<Vec<_>>()
            })
        })
        .collect();
    let mut bad = 0;
    let mut n = 0;
    for h in handles {
        for (k, s) in h.join().expect("thread") {
            n += 1;
            if s != reference[k] {
                bad += 1;
                println!("MISMATCH query {}:\n  thread:    {}\n  reference: {}", k, s, reference[k]);
            }
        }
    }
    println!("miri-c16: {} compilations in 2 threads compared, {} mismatches", n, bad);
    if bad > 0 {
        std::process::exit(1);
    }
}
